// vp: driver for the solver-based checks of aundis/formula.
//
//	vp check <ID> [--tier quick|thorough] [--only harness] [--workers n]
//	vp explore <harness> k=v ...        (ad-hoc run, prints statistics)
//	vp replay <file>                    (native replay of a stored counterexample)
package main

import (
	"crypto/sha1"
	"encoding/json"
	"flag"
	"fmt"
	"os"
	"os/exec"
	"path/filepath"
	"runtime"
	"sort"
	"strconv"
	"strings"
	"time"

	interp "vpengine/gosym"
)

var repoDir = "/repo" // VP_REPO_DIR overrides it for development runs against a scratch worktree (never used by registered commands)

var verifDir = "/verif"

func main() {
	if v := os.Getenv("VP_VERIF_DIR"); v != "" {
		verifDir = v
	}
	if v := os.Getenv("VP_REPO_DIR"); v != "" {
		repoDir = v
	}
	if os.Getenv("VP_SLOW") != "" {
		interp.SlowLog = os.Stderr
	}
	if os.Getenv("VP_CROSSCHECK") != "" {
		interp.CrossCheckIntervals = true
	}
	if len(os.Args) < 2 {
		usage()
	}
	switch os.Args[1] {
	case "check":
		os.Exit(cmdCheck(os.Args[2:]))
	case "explore":
		os.Exit(cmdExplore(os.Args[2:]))
	case "replay":
		os.Exit(cmdReplay(os.Args[2:]))
	case "list":
		for _, c := range allChecks() {
			fmt.Println(c.ID, len(c.Runs), "harness runs")
		}
	default:
		usage()
	}
}

func usage() {
	fmt.Fprintln(os.Stderr, "usage: vp check <ID> [--tier quick|thorough] | vp explore <harness> k=v... | vp replay <file>")
	os.Exit(2)
}

// ---------------------------------------------------------------------------

func harnessOverlay() (map[string][]byte, map[string]string, error) {
	files, err := filepath.Glob(filepath.Join(verifDir, "harness", "*.go"))
	if err != nil {
		return nil, nil, err
	}
	ov := map[string][]byte{}
	paths := map[string]string{}
	for _, f := range files {
		b, err := os.ReadFile(f)
		if err != nil {
			return nil, nil, err
		}
		virt := filepath.Join(repoDir, "zz_vp_"+filepath.Base(f))
		ov[virt] = b
		paths[virt] = f
	}
	return ov, paths, nil
}

func repoStatus() string {
	out, _ := exec.Command("git", "-C", repoDir, "status", "--porcelain").CombinedOutput()
	return string(out)
}

func loadProgram() (*interp.Program, error) {
	ov, _, err := harnessOverlay()
	if err != nil {
		return nil, err
	}
	return interp.Load(repoDir, ov)
}

// ---- native replay ----

type vpVal struct {
	Name string `json:"name"`
	Kind string `json:"kind"`
	Val  string `json:"val"`
}

type vpCase struct {
	ID        string         `json:"id"`
	Harness   string         `json:"harness"`
	Params    map[string]int `json:"params"`
	Values    []vpVal        `json:"values"`
	TimeoutMs int            `json:"timeout_ms"`
	Expected  []string       `json:"expected,omitempty"`
	Note      string         `json:"note,omitempty"`
}

type vpResult struct {
	ID           string   `json:"id"`
	Events       []string `json:"events"`
	Panic        string   `json:"panic,omitempty"`
	Timeout      bool     `json:"timeout,omitempty"`
	AssumeFailed bool     `json:"assume_failed,omitempty"`
	Exhausted    bool     `json:"exhausted,omitempty"`
	NameMismatch string   `json:"name_mismatch,omitempty"`
}

// nativeReplay runs the cases against the natively compiled repository (with
// the harness overlay) and returns the results keyed by case id.
var lastRaceReport string

func nativeReplay(cases []*vpCase) (map[string]*vpResult, error) {
	return nativeReplayOpt(cases, false)
}

func nativeReplayOpt(cases []*vpCase, race bool) (map[string]*vpResult, error) {
	res := map[string]*vpResult{}
	lastRaceReport = ""
	if len(cases) == 0 {
		return res, nil
	}
	tmp, err := os.MkdirTemp("", "vpreplay")
	if err != nil {
		return nil, err
	}
	defer os.RemoveAll(tmp)
	_, paths, err := harnessOverlay()
	if err != nil {
		return nil, err
	}
	paths[filepath.Join(repoDir, "zz_vp_replay_test.go")] = filepath.Join(verifDir, "harness", "replay_test.go.txt")
	ovb, _ := json.Marshal(map[string]interface{}{"Replace": paths})
	ovf := filepath.Join(tmp, "overlay.json")
	os.WriteFile(ovf, ovb, 0o644)
	remaining := cases
	for round := 0; len(remaining) > 0 && round < 20; round++ {
		in := filepath.Join(tmp, fmt.Sprintf("in%d.json", round))
		out := filepath.Join(tmp, fmt.Sprintf("out%d.json", round))
		b, _ := json.Marshal(remaining)
		os.WriteFile(in, b, 0o644)
		argv := []string{"test", "-mod=readonly", "-vet=off", "-count=1", "-run", "^TestVPReplay$", "-timeout", "30m", "-overlay", ovf}
		if race {
			argv = append(argv, "-race")
		}
		argv = append(argv, ".")
		cmd := exec.Command("go", argv...)
		cmd.Dir = repoDir
		cmd.Env = append(os.Environ(), "VP_REPLAY_IN="+in, "VP_REPLAY_OUT="+out, "GOFLAGS=", "GOPROXY=off", "GOSUMDB=off", "GOTOOLCHAIN=local", "GOWORK=off")
		outb, rerr := cmd.CombinedOutput()
		if os.Getenv("VP_DEBUG_REPLAY") != "" {
			fmt.Fprintf(os.Stderr, "native replay (race=%v) output:\n%s\n", race, firstLines(string(outb), 25))
		}
		if race && strings.Contains(string(outb), "DATA RACE") {
			rep := string(outb)
			if i := strings.Index(rep, "WARNING: DATA RACE"); i >= 0 {
				rep = rep[i:]
			}
			if len(rep) > 3000 {
				rep = rep[:3000]
			}
			lastRaceReport = rep
		}
		data, err := os.ReadFile(out)
		if err != nil {
			return nil, fmt.Errorf("native replay failed: %v\n%s", rerr, string(outb))
		}
		var rs []*vpResult
		if err := json.Unmarshal(data, &rs); err != nil {
			return nil, err
		}
		for _, r := range rs {
			res[r.ID] = r
		}
		// the test process died (runtime fatal error: stack overflow, out of memory ...): the case that
		// was running is recorded as crashed and the rest is re-run
		if cur, cerr := os.ReadFile(out + ".cur"); cerr == nil && rerr != nil && strings.Contains(string(outb), "fatal error:") {
			id := string(cur)
			if _, done := res[id]; !done {
				msg := string(outb)
				if i := strings.Index(msg, "fatal error:"); i >= 0 {
					msg = firstLines(msg[i:], 1)
				}
				res[id] = &vpResult{ID: id, Panic: msg + " (the process died)"}
			}
		}
		os.Remove(out + ".cur")
		var next []*vpCase
		for _, c := range remaining {
			if _, ok := res[c.ID]; !ok {
				next = append(next, c)
			}
		}
		if len(next) == len(remaining) {
			return nil, fmt.Errorf("native replay made no progress:\n%s", string(outb))
		}
		remaining = next
	}
	return res, nil
}

// nativeObserved records every assertion that failed in a native replay (labels that only the
// engine's write monitor can decide hold natively by construction and are skipped).
func nativeObserved(chk *Check, c *vpCase, r *vpResult, confirmed map[string][]violation) {
	if r == nil || r.AssumeFailed || r.Exhausted || r.NameMismatch != "" || chk.Race {
		return
	}
	for _, e := range r.Events {
		if strings.HasPrefix(e, "A:") && strings.HasSuffix(e, ":false") {
			lab := strings.TrimSuffix(strings.TrimPrefix(e, "A:"), ":false")
			v := violation{Harness: c.Harness, Label: lab, Case: c, Kind: "assert", Detail: "observed in the native replay only (a native-only assertion, or the engine's own path differs here because its model of the code - e.g. of aliasing through package unsafe - is not exact for this input)"}
			key := v.Harness + "|" + v.Label
			dup := false
			for _, old := range confirmed[key] {
				if old.Case.ID == c.ID {
					dup = true
				}
			}
			if !dup {
				confirmed[key] = append(confirmed[key], v)
			}
			return
		}
	}
}

func firstLines(s string, n int) string {
	ls := strings.Split(s, "\n")
	if len(ls) > n {
		ls = ls[:n]
	}
	return strings.Join(ls, "\n")
}

func caseFromModel(id, harness string, params map[string]int, vars []interp.VarInfo, m interp.Model) *vpCase {
	c := &vpCase{ID: id, Harness: harness, Params: params, TimeoutMs: 20000}
	for _, v := range vars {
		c.Values = append(c.Values, vpVal{Name: v.Tag, Kind: v.Kind, Val: strconv.FormatUint(m[v.Name], 10)})
	}
	return c
}

// ---------------------------------------------------------------------------

type runSummary struct {
	Harness      string                    `json:"harness"`
	Params       map[string]int            `json:"params"`
	Paths        int                       `json:"paths"`
	Forks        int                       `json:"forks"`
	Outcomes     map[string]int            `json:"outcomes"`
	Inconclusive map[string]int            `json:"inconclusive_paths,omitempty"`
	Asserts      map[string]map[string]int `json:"assertions"`
	Reached      map[string]int            `json:"reached"`
	Queries      map[string]int            `json:"queries"`
	SolverTimeS  float64                   `json:"solver_time_s"`
	MaxQueryS    float64                   `json:"max_query_s"`
	WallS        float64                   `json:"wall_s"`
	MaxSteps     int                       `json:"max_steps_per_path"`
	Truncated    bool                      `json:"truncated,omitempty"`
	EngineBugs   []string                  `json:"engine_errors,omitempty"`
	Writes       map[string]int            `json:"monitored_writes,omitempty"`
}

type violation struct {
	Harness string
	Label   string
	Case    *vpCase
	Kind    string // "assert", "panic", "budget"
	Detail  string
}

type checkOutput struct {
	summaries     []runSummary
	violations    []violation // candidates (before native confirmation)
	samples       []*vpCase
	funcs         map[string]int
	totalPaths    int
	totalForks    int
	obligations   int
	discharged    int
	folded        int
	unknownObl    int
	skippedRuns   int
	inconclusive  int
	truncated     bool
	engineErrs    []string
	missingReach  []string
	sampleObjects []interface{}
}

func summarize(h HarnessRun, params map[string]int, ex *interp.Explorer, wall time.Duration) runSummary {
	s := runSummary{Harness: h.Harness, Params: params, Paths: ex.Paths, Forks: ex.Forks, Outcomes: ex.Outcomes, Inconclusive: ex.Inconclusive,
		Asserts: ex.AssertStats, Reached: ex.ReachCount, Queries: map[string]int{}, WallS: wall.Seconds(), MaxSteps: ex.MaxSteps, Truncated: ex.Truncated, EngineBugs: ex.Bugs}
	for _, sol := range ex.Solvers {
		s.Queries["sat"] += sol.NSat
		s.Queries["unsat"] += sol.NUnsat
		s.Queries["unknown"] += sol.NUnk
		s.Queries["error"] += sol.NErr
		s.SolverTimeS += sol.Time.Seconds()
		if m := sol.MaxTime.Seconds(); m > s.MaxQueryS {
			s.MaxQueryS = m
		}
	}
	if len(ex.WriteRecs) > 0 {
		s.Writes = ex.WriteRecs
	}
	return s
}

func runHarness(p *interp.Program, h HarnessRun, tier string, workers int, out *checkOutput) error {
	params := h.Quick
	if tier == "thorough" && h.Thorough != nil {
		params = h.Thorough
	}
	cfg := interp.Config{Harness: h.Harness, Params: params, Workers: workers, SampleEvery: h.SampleEvery, Monitor: h.Monitor,
		ReinitPkgs: []string{"github.com/aundis/formula"}, StepBudget: h.StepBudget, MaxPaths: h.MaxPaths, Timeout: time.Duration(h.TimeoutS) * time.Second}
	if cfg.SampleEvery == 0 {
		cfg.SampleEvery = 97
	}
	if cfg.Timeout == 0 {
		// wall-clock budget per harness run: exceeding it truncates the run (reported as INCONCLUSIVE, never as success)
		cfg.Timeout = 15 * time.Minute
		if tier == "thorough" {
			cfg.Timeout = 75 * time.Minute
		}
	}
	if h.NoReinit {
		cfg.ReinitPkgs = nil
	}
	t0 := time.Now()
	ex, err := p.Explore(cfg)
	if err != nil {
		return err
	}
	wall := time.Since(t0)
	sum := summarize(h, params, ex, wall)
	out.summaries = append(out.summaries, sum)
	out.totalPaths += ex.Paths
	out.totalForks += ex.Forks
	out.truncated = out.truncated || ex.Truncated
	out.engineErrs = append(out.engineErrs, ex.Bugs...)
	for k, v := range ex.Outcomes {
		if k == "inconclusive" || k == "enginebug" {
			out.inconclusive += v
		}
	}
	for _, m := range ex.AssertStats {
		for st, n := range m {
			out.obligations += n
			switch st {
			case "unsat":
				out.discharged += n
			case "folded":
				out.folded += n
			case "unknown", "error":
				out.unknownObl += n
			}
		}
	}
	for k, v := range ex.FuncsHit {
		out.funcs[k] += v
	}
	for _, r := range h.MustReach {
		if ex.ReachCount[r] == 0 {
			out.missingReach = append(out.missingReach, h.Harness+":"+r)
		}
	}
	fmt.Printf("  %-28s %v paths=%d forks=%d outcomes=%v queries=%v solver=%.1fs wall=%.1fs\n", h.Harness, fmtParams(params), ex.Paths, ex.Forks, ex.SortedOutcomes(), sum.Queries, sum.SolverTimeS, wall.Seconds())
	for k, v := range ex.Inconclusive {
		fmt.Printf("      %s x%d\n", k, v)
	}
	for _, b := range ex.Bugs {
		fmt.Printf("      ENGINE: %s\n", b)
	}
	// candidates (case ids are unique per harness run)
	runTag := fmt.Sprintf("%s@%d", h.Harness, len(out.summaries))
	n := 0
	for _, rec := range ex.Violations {
		vars := interp.VarInfos(rec.Vars)
		for _, a := range rec.Asserts {
			if (a.Status == "sat" || a.Status == "concrete-false") && a.Model != nil {
				n++
				c := caseFromModel(fmt.Sprintf("%s#v%d", runTag, n), h.Harness, params, vars, a.Model)
				out.violations = append(out.violations, violation{Harness: h.Harness, Label: a.Label, Case: c, Kind: "assert"})
				for _, em := range a.Extra {
					n++
					ce := caseFromModel(fmt.Sprintf("%s#v%d", runTag, n), h.Harness, params, vars, em)
					out.violations = append(out.violations, violation{Harness: h.Harness, Label: a.Label, Case: ce, Kind: "assert"})
				}
			}
		}
		kind := rec.Outcome
		if j := strings.Index(kind, ":"); j > 0 {
			kind = kind[:j]
		}
		if (kind == "panic" || kind == "budget") && rec.Model != nil {
			n++
			c := caseFromModel(fmt.Sprintf("%s#v%d", runTag, n), h.Harness, params, vars, rec.Model)
			c.Expected = rec.Expected
			lab := h.PanicLabel
			if lab == "" {
				lab = h.Harness + "/no-panic"
			}
			if kind == "budget" {
				lab = h.Harness + "/terminates"
				c.TimeoutMs = 10000
			}
			out.violations = append(out.violations, violation{Harness: h.Harness, Label: lab, Case: c, Kind: kind, Detail: rec.Outcome})
		}
	}
	// samples (bounded)
	maxS := 24
	if tier == "thorough" {
		maxS = 96
	}
	step := 1
	if len(ex.Samples) > maxS {
		step = len(ex.Samples) / maxS
	}
	for i := 0; i < len(ex.Samples); i += step {
		rec := ex.Samples[i]
		c := caseFromModel(fmt.Sprintf("%s#s%d", runTag, i), h.Harness, params, interp.VarInfos(rec.Vars), rec.Model)
		c.Expected = rec.Expected
		out.samples = append(out.samples, c)
	}
	return nil
}

func fmtParams(p map[string]int) string {
	var ks []string
	for k := range p {
		ks = append(ks, k)
	}
	sort.Strings(ks)
	var sb strings.Builder
	for _, k := range ks {
		fmt.Fprintf(&sb, "%s=%d ", k, p[k])
	}
	return strings.TrimSpace(sb.String())
}

type knownFinding struct {
	Property string `json:"property"`
	Harness  string `json:"harness"`
	Label    string `json:"label"`
	Status   string `json:"status"` // "known" | "fixed"
	Commit   string `json:"commit,omitempty"`
	Witness  string `json:"witness,omitempty"`
	// Values identifies the failing input of a "known" finding: harness input name -> value
	// (as in the replay file). A violation with other values is a different violation.
	Values      map[string]string `json:"values,omitempty"`
	Description string            `json:"description"`
}

// matches: the violation is the listed finding (same property / harness / label and the same identifying input).
func (kf knownFinding) matches(prop string, v violation) bool {
	if kf.Property != prop || kf.Status != "known" || kf.Harness != v.Harness || kf.Label != v.Label {
		return false
	}
	if len(kf.Values) == 0 {
		return false // a known finding must name the input that fails
	}
	for name, want := range kf.Values {
		found := false
		for _, val := range v.Case.Values {
			if val.Name == name && val.Val == want {
				found = true
			}
		}
		if !found {
			return false
		}
	}
	return true
}

func loadKnown() []knownFinding {
	var ks []knownFinding
	b, err := os.ReadFile(filepath.Join(verifDir, "known_findings.json"))
	if err != nil {
		return nil
	}
	json.Unmarshal(b, &ks)
	return ks
}

func cmdCheck(args []string) int {
	fs := flag.NewFlagSet("check", flag.ExitOnError)
	tier := fs.String("tier", "", "quick|thorough")
	only := fs.String("only", "", "run only this harness")
	workers := fs.Int("workers", 0, "worker count (default: all cores)")
	noReplay := fs.Bool("noreplay", false, "skip native replays (debugging only; evidence is not written)")
	solver := fs.String("solver", "z3", "z3|z3-new|cvc5")
	qlog := fs.String("querylog", "", "directory for SMT query logs")
	if len(args) < 1 {
		usage()
	}
	id := args[0]
	fs.Parse(args[1:])
	if *tier == "" {
		*tier = os.Getenv("VERIF_TIER")
	}
	if *workers == 0 {
		if n, err := strconv.Atoi(os.Getenv("VP_WORKERS")); err == nil && n > 0 {
			*workers = n
		}
	}
	if *tier == "" {
		*tier = "quick"
	}
	interp.SolverKind = *solver
	interp.QueryLogDir = *qlog
	if *tier == "quick" {
		interp.SolverTimeoutMs = 15000
	}
	seed, _ := strconv.Atoi(os.Getenv("VERIF_SEED"))
	var chk *Check
	for _, c := range allChecks() {
		if c.ID == id {
			cc := c
			chk = &cc
		}
	}
	if chk == nil {
		fmt.Fprintln(os.Stderr, "unknown check", id)
		return 2
	}
	t0 := time.Now()
	before := repoStatus()
	fmt.Printf("== %s (%s) tier=%s cores=%d solver=%s\n", chk.ID, chk.Title, *tier, runtime.NumCPU(), *solver)
	p, err := loadProgram()
	if err != nil {
		fmt.Fprintln(os.Stderr, "cannot load /repo with the harness overlay:", err)
		// A tree that does not compile with the harness is not a verdict about the property.
		writeEvidenceFailure(chk, *tier, seed, time.Since(t0), "load failed: "+err.Error())
		return 3
	}
	fmt.Printf("  loaded and built SSA from %s in %.1fs\n", repoDir, p.LoadDur.Seconds())
	out := &checkOutput{funcs: map[string]int{}}
	for _, h := range chk.Runs {
		if *only != "" && h.Harness != *only {
			continue
		}
		if h.ThoroughOnly && *tier != "thorough" {
			continue
		}
		nBefore := len(out.violations)
		if err := runHarness(p, h, *tier, *workers, out); err != nil {
			fmt.Fprintln(os.Stderr, "engine failure:", err)
			writeEvidenceFailure(chk, *tier, seed, time.Since(t0), "engine failure: "+err.Error())
			return 3
		}
		// fail fast: candidates of this run are replayed natively at once; after a confirmed
		// violation that is not a listed known finding the remaining runs are skipped (the verdict is
		// already "violated"; evidence lists the skipped runs)
		if !*noReplay && !chk.Race && len(out.violations) > nBefore && *only == "" {
			var cs []*vpCase
			for _, v := range out.violations[nBefore:] {
				if len(cs) < 8 {
					cs = append(cs, v.Case)
				}
			}
			if rs, err := nativeReplayOpt(cs, false); err == nil {
				known := loadKnown()
				hit := false
				for _, v := range out.violations[nBefore:] {
					r := rs[v.Case.ID]
					if r == nil || r.AssumeFailed {
						continue
					}
					ok := false
					switch v.Kind {
					case "assert":
						for _, e := range r.Events {
							if e == "A:"+v.Label+":false" {
								ok = true
							}
						}
					case "panic":
						ok = r.Panic != ""
					case "budget":
						ok = r.Timeout
					}
					if ok {
						listed := false
						for _, kf := range known {
							if kf.matches(chk.ID, v) {
								listed = true
							}
						}
						if !listed {
							hit = true
						}
					}
				}
				if hit {
					skipped := 0
					seen := false
					for _, h2 := range chk.Runs {
						if seen && !(h2.ThoroughOnly && *tier != "thorough") {
							skipped++
						}
						if h2.Harness == h.Harness && fmt.Sprint(h2.Quick) == fmt.Sprint(h.Quick) {
							seen = true
						}
					}
					fmt.Printf("  a violation of %s was confirmed natively: the remaining %d run(s) are skipped\n", h.Harness, skipped)
					out.skippedRuns = skipped
					break
				}
			}
		}
	}
	// native replays
	confirmed := map[string][]violation{}
	spurious := 0
	validated, mismatched := 0, 0
	var mismatchNotes []string
	if !*noReplay {
		var cases []*vpCase
		for _, v := range out.violations {
			cases = append(cases, v.Case)
		}
		cases = append(cases, out.samples...)
		res, err := nativeReplayOpt(cases, chk.Race)
		if err != nil {
			fmt.Fprintln(os.Stderr, "native replay failed:", err)
			writeEvidenceFailure(chk, *tier, seed, time.Since(t0), "native replay failed: "+err.Error())
			return 3
		}
		raceReport := lastRaceReport
		if chk.Race && raceReport == "" {
			// a shared write reported by the engine races only while the shared state is cold: give the
			// race detector a fresh process per attempt with that candidate alone
			for _, v := range out.violations {
				if v.Kind == "assert" && strings.HasSuffix(v.Label, "no-shared-write") {
					for attempt := 0; attempt < 8 && raceReport == ""; attempt++ {
						if _, err := nativeReplayOpt([]*vpCase{v.Case}, true); err == nil {
							raceReport = lastRaceReport
						}
					}
					break
				}
			}
		}
		// A candidate whose failure depends on hidden state (a cache, a pool, a memo in a package-level
		// variable) may not reproduce in the batch process, where earlier cases have already changed that
		// state; the engine's path starts from the freshly initialised package. Such candidates are replayed
		// once more, each alone in a fresh process, before they are called spurious.
		fresh := map[string]*vpResult{}
		freshRuns := 0
		reproduced := func(v violation, r *vpResult) bool {
			if r == nil || r.AssumeFailed {
				return false
			}
			switch v.Kind {
			case "assert":
				for _, e := range r.Events {
					if e == "A:"+v.Label+":false" {
						return true
					}
				}
			case "panic":
				return r.Panic != ""
			case "budget":
				return r.Timeout
			}
			return false
		}
		for _, v := range out.violations {
			if chk.Race || reproduced(v, res[v.Case.ID]) || freshRuns >= 12 {
				continue
			}
			if strings.Contains(v.Label, "no-hidden-state-written") || strings.Contains(v.Label, "no-write-to-caller-data") || strings.Contains(v.Label, "no-shared-write") {
				continue // monitor-only labels: the native build has no write monitor, nothing to reproduce
			}
			freshRuns++
			if rs, err := nativeReplayOpt([]*vpCase{v.Case}, false); err == nil && rs[v.Case.ID] != nil {
				fresh[v.Case.ID] = rs[v.Case.ID]
			}
		}
		for _, v := range out.violations {
			r := res[v.Case.ID]
			if fr := fresh[v.Case.ID]; fr != nil && reproduced(v, fr) {
				r = fr
				v.Detail += " | reproduced in a fresh process (not in the batch: the failure depends on state left by earlier cases)"
			}
			ok := false
			if r != nil && !r.AssumeFailed {
				switch v.Kind {
				case "assert":
					for _, e := range r.Events {
						if e == "A:"+v.Label+":false" {
							ok = true
						}
					}
					// a shared write found by the engine is confirmed by the race detector
					if !ok && chk.Race && strings.HasSuffix(v.Label, "no-shared-write") && raceReport != "" {
						ok = true
						v.Detail += " | go test -race: " + strings.SplitN(raceReport, "\n\n", 2)[0]
					}
					// ... or by concurrent results that differ from the sequential ones
					if !ok && chk.Race && strings.HasSuffix(v.Label, "no-shared-write") {
						for _, e := range r.Events {
							if strings.HasSuffix(e, "concurrent-equals-sequential:false") {
								ok = true
								v.Detail += " | native: concurrent results differ from sequential ones"
							}
						}
					}
				case "panic":
					ok = r.Panic != ""
					v.Detail += " | native: " + r.Panic
				case "budget":
					ok = r.Timeout
				}
			}
			if ok {
				key := v.Harness + "|" + v.Label
				confirmed[key] = append(confirmed[key], v)
			} else {
				spurious++
				nativeObserved(chk, v.Case, r, confirmed)
				why := "no result"
				if r != nil {
					why = fmt.Sprintf("native events=%v panic=%q assumeFailed=%v exhausted=%v %s", r.Events, r.Panic, r.AssumeFailed, r.Exhausted, r.NameMismatch)
				}
				fmt.Printf("  spurious (does not reproduce natively): %s %s: %s\n", v.Harness, v.Label, why)
			}
		}
		for _, c := range out.samples {
			r := res[c.ID]
			if r == nil {
				continue
			}
			died := strings.Contains(r.Panic, "the process died") && len(c.Expected) > 0 && c.Expected[len(c.Expected)-1] == "PANIC"
			if !r.AssumeFailed && !r.Exhausted && r.NameMismatch == "" && (equalStrings(r.Events, c.Expected) || died) {
				validated++
				if len(out.sampleObjects) < 6 {
					out.sampleObjects = append(out.sampleObjects, map[string]interface{}{"harness": c.Harness, "params": c.Params, "input": c.Values, "events_symbolic_and_native": c.Expected})
				}
			} else {
				mismatched++
				// The native run of a sampled path fails an assertion: the real code violates the
				// property on this concrete input, whatever the engine's own path did (typically memory
				// aliasing through package unsafe, which the engine's immutable strings do not model,
				// has sent the engine down another path). It reproduces natively by construction, so it
				// is reported - as found by the native replay of a sampled path, not by the solver.
				nativeObserved(chk, c, r, confirmed)
				if len(mismatchNotes) < 5 {
					mismatchNotes = append(mismatchNotes, fmt.Sprintf("%s: symbolic %v vs native %v (panic=%q assumeFailed=%v exhausted=%v %s) input=%v", c.ID, c.Expected, r.Events, r.Panic, r.AssumeFailed, r.Exhausted, r.NameMismatch, c.Values))
				}
			}
		}
	}
	for _, n := range mismatchNotes {
		fmt.Println("  TRANSLATION MISMATCH:", n)
	}
	// known findings
	known := loadKnown()
	exit := 0
	nviol := 0
	var keys []string
	for k := range confirmed {
		keys = append(keys, k)
	}
	sort.Strings(keys)
	os.MkdirAll(filepath.Join(verifDir, "replays"), 0o755)
	printedKnown := map[string]bool{}
	for _, k := range keys {
		// every confirmed violation under this label is compared with the listed findings; the
		// first one that is not listed is reported
		var v violation
		unlisted := false
		for _, cand := range confirmed[k] {
			isKnown := false
			for _, kf := range known {
				if kf.matches(chk.ID, cand) {
					isKnown = true
					if !printedKnown[kf.Description] {
						printedKnown[kf.Description] = true
						fmt.Printf("KNOWN-FINDING: property=%s %s %s input=%s: %s\n", chk.ID, cand.Harness, cand.Label, renderValues(cand.Case.Values), kf.Description)
					}
				}
			}
			if !isKnown && !unlisted {
				v, unlisted = cand, true
			}
		}
		if !unlisted {
			continue
		}
		nviol++
		exit = 1
		h := sha1.Sum([]byte(k))
		path := filepath.Join(verifDir, "replays", fmt.Sprintf("%s-%x.json", chk.ID, h[:5]))
		v.Case.Note = fmt.Sprintf("property %s, harness %s, failing label %s (%s) %s", chk.ID, v.Harness, v.Label, v.Kind, v.Detail)
		b, _ := json.MarshalIndent(v.Case, "", " ")
		os.WriteFile(path, b, 0o644)
		fmt.Printf("VIOLATION property=%s replay=%s\n", chk.ID, path)
		fmt.Printf("  label=%s kind=%s input=%s %s\n", v.Label, v.Kind, renderValues(v.Case.Values), v.Detail)
	}
	if len(out.missingReach) > 0 {
		fmt.Printf("  VACUITY: expected outcome classes never reached: %v\n", out.missingReach)
	}
	status := "holds within the stated bounds"
	if out.inconclusive > 0 || out.unknownObl > 0 || out.truncated || mismatched > 0 || len(out.missingReach) > 0 || len(out.engineErrs) > 0 {
		status = "INCONCLUSIVE in part (see evidence: inconclusive paths / unknown obligations / truncation / replay mismatches)"
	}
	if len(printedKnown) > 0 && status == "holds within the stated bounds" {
		status = fmt.Sprintf("holds within the stated bounds apart from %d listed known finding(s)", len(printedKnown))
	}
	if exit != 0 {
		status = "VIOLATED"
	}
	wall := time.Since(t0)
	fmt.Printf("== %s: %s; paths=%d obligations=%d (solver-discharged %d, folded %d, unknown %d) confirmed-violations=%d spurious=%d samples validated natively=%d mismatched=%d wall=%.1fs\n",
		chk.ID, status, out.totalPaths, out.obligations, out.discharged, out.folded, out.unknownObl, nviol, spurious, validated, mismatched, wall.Seconds())
	if !*noReplay && *only == "" {
		writeEvidence(chk, *tier, seed, wall, out, nviol, spurious, validated, mismatched, mismatchNotes, status)
	}
	if after := repoStatus(); after != before {
		fmt.Fprintln(os.Stderr, "WARNING: /repo working tree status changed during the check:\n"+after)
	}
	return exit
}

func renderValues(vs []vpVal) string {
	var parts []string
	var bytes []byte
	allBytes := true
	for _, v := range vs {
		parts = append(parts, v.Name+"="+v.Val)
		if v.Kind == "byte" {
			n, _ := strconv.Atoi(v.Val)
			bytes = append(bytes, byte(n))
		} else {
			allBytes = false
		}
	}
	s := strings.Join(parts, " ")
	if len(s) > 300 {
		s = s[:300] + "..."
	}
	if allBytes && len(bytes) > 0 {
		s += fmt.Sprintf(" (bytes %q)", string(bytes))
	}
	return s
}

func equalStrings(a, b []string) bool {
	if len(a) != len(b) {
		return false
	}
	for i := range a {
		if a[i] != b[i] {
			// the symbolic side could not evaluate a term (uninterpreted function): any native value matches
			if strings.HasSuffix(b[i], ":?") && strings.HasPrefix(a[i], strings.TrimSuffix(b[i], "?")) {
				continue
			}
			return false
		}
	}
	return true
}

func writeEvidenceFailure(chk *Check, tier string, seed int, wall time.Duration, why string) {
	ev := map[string]interface{}{
		"property_id": chk.ID, "tier": tier, "seed": seed, "level": "model_checking",
		"coverage": map[string]interface{}{"evaluations": 1, "distinct_nontrivial": 0, "explanation": "the check could not run: " + why},
		"wall_s":   wall.Seconds(), "violations": 0,
	}
	b, _ := json.MarshalIndent(ev, "", " ")
	os.MkdirAll(filepath.Join(verifDir, "evidence"), 0o755)
	os.WriteFile(filepath.Join(verifDir, "evidence", chk.ID+".json"), b, 0o644)
}

func writeEvidence(chk *Check, tier string, seed int, wall time.Duration, out *checkOutput, nviol, spurious, validated, mismatched int, notes []string, status string) {
	type fe struct {
		Name  string `json:"function"`
		Calls int    `json:"calls"`
	}
	var funcs []fe
	for k, v := range out.funcs {
		if strings.Contains(k, "aundis/formula") || strings.Contains(k, "ericlagergren/decimal") {
			if !strings.Contains(k, ".vp") && !strings.Contains(k, ".VP_") {
				funcs = append(funcs, fe{k, v})
			}
		}
	}
	sort.Slice(funcs, func(i, j int) bool { return funcs[i].Name < funcs[j].Name })
	var stubs []string
	for k, v := range interp.ModelNotes {
		if out.stubUsed(k) {
			stubs = append(stubs, k+": "+v)
		}
	}
	sort.Strings(stubs)
	samples := out.sampleObjects
	if len(samples) == 0 {
		for _, s := range out.summaries {
			samples = append(samples, map[string]interface{}{"harness": s.Harness, "params": s.Params, "paths": s.Paths})
		}
	}
	queries := map[string]int{}
	solverT := 0.0
	for _, s := range out.summaries {
		for k, v := range s.Queries {
			queries[k] += v
		}
		solverT += s.SolverTimeS
	}
	cov := map[string]interface{}{
		"states":                        out.totalPaths,
		"transitions":                   out.totalForks + out.totalPaths,
		"traces_validated_against_impl": validated,
		"samples":                       samples,
		"exhaustive":                    !out.truncated && out.inconclusive == 0,
		"explanation": "states = completed symbolic paths of the real SSA code (each path covers every input satisfying its path condition); transitions = solver-decided branch forks + path completions; " +
			"traces_validated = solver models of sampled paths replayed against the natively compiled code with identical observable event traces. Verdict: " + status,
		"obligations":              out.obligations,
		"discharged":               out.discharged + out.folded,
		"discharged_by_solver":     out.discharged,
		"discharged_by_folding":    out.folded,
		"obligations_unknown":      out.unknownObl,
		"inconclusive_paths":       out.inconclusive,
		"replay_mismatches":        mismatched,
		"replay_mismatch_notes":    notes,
		"spurious_counterexamples": spurious,
		"functions_encoded":        funcs,
		"harness_runs":             out.summaries,
		"queries":                  queries,
		"solver_time_s":            solverT,
		"stubs":                    stubs,
		"bounds":                   chk.Bounds,
		"outside_the_claim":        chk.Outside,
		"missing_reach":            out.missingReach,
		"runs_skipped_after_first_confirmed_violation": out.skippedRuns,
		"engine_errors": out.engineErrs,
	}
	ev := map[string]interface{}{
		"property_id": chk.ID, "tier": tier, "seed": seed, "level": "model_checking",
		"coverage": cov, "assumptions": chk.Assumptions, "wall_s": wall.Seconds(), "violations": nviol,
	}
	b, _ := json.MarshalIndent(ev, "", " ")
	os.MkdirAll(filepath.Join(verifDir, "evidence"), 0o755)
	os.WriteFile(filepath.Join(verifDir, "evidence", chk.ID+".json"), b, 0o644)
}

func (o *checkOutput) stubUsed(name string) bool { return true }

// ---------------------------------------------------------------------------

func cmdExplore(args []string) int {
	if len(args) < 1 {
		usage()
	}
	params := map[string]int{}
	workers := 0
	sample := 0
	maxPaths, timeoutS := 0, 0
	monitor := false
	for _, a := range args[1:] {
		kv := strings.SplitN(a, "=", 2)
		if len(kv) != 2 {
			continue
		}
		n, _ := strconv.Atoi(kv[1])
		switch kv[0] {
		case "maxpaths":
			maxPaths = n
		case "timeout":
			timeoutS = n
		case "workers":
			workers = n
		case "sample":
			sample = n
		case "monitor":
			monitor = n == 1
		case "solver":
			interp.SolverKind = kv[1]
		case "querylog":
			interp.QueryLogDir = kv[1]
		default:
			params[kv[0]] = n
		}
	}
	p, err := loadProgram()
	if err != nil {
		fmt.Fprintln(os.Stderr, err)
		return 3
	}
	out := &checkOutput{funcs: map[string]int{}}
	h := HarnessRun{Harness: args[0], Quick: params, SampleEvery: sample, MaxPaths: maxPaths, TimeoutS: timeoutS, Monitor: monitor}
	if err := runHarness(p, h, "quick", workers, out); err != nil {
		fmt.Fprintln(os.Stderr, err)
		return 3
	}
	s := out.summaries[0]
	b, _ := json.MarshalIndent(s.Asserts, "", " ")
	fmt.Println(string(b))
	seen := map[string]int{}
	for _, v := range out.violations {
		key := v.Label + "|" + v.Detail
		if len(key) > 120 {
			key = key[:120]
		}
		seen[key]++
		if seen[key] <= 2 && len(seen) < 40 {
			fmt.Printf("  candidate: %s %s %s %s\n", v.Label, v.Kind, renderValues(v.Case.Values), v.Detail)
		}
	}
	if os.Getenv("VP_REPLAY") != "" {
		var cases []*vpCase
		for _, v := range out.violations {
			cases = append(cases, v.Case)
		}
		cases = append(cases, out.samples...)
		res, err := nativeReplay(cases)
		if err != nil {
			fmt.Println("replay error:", err)
			return 3
		}
		for _, c := range cases {
			r := res[c.ID]
			fmt.Printf("  replay %s: events=%v panic=%q expected=%v\n", c.ID, r.Events, r.Panic, c.Expected)
		}
	}
	return 0
}

func cmdReplay(args []string) int {
	if len(args) < 1 {
		usage()
	}
	b, err := os.ReadFile(args[0])
	if err != nil {
		fmt.Fprintln(os.Stderr, err)
		return 2
	}
	var c vpCase
	if err := json.Unmarshal(b, &c); err != nil {
		fmt.Fprintln(os.Stderr, err)
		return 2
	}
	if c.ID == "" {
		c.ID = "replay"
	}
	res, err := nativeReplay([]*vpCase{&c})
	if err != nil {
		fmt.Fprintln(os.Stderr, err)
		return 3
	}
	r := res[c.ID]
	fmt.Printf("harness=%s input=%s\nnote=%s\nnative events=%v\npanic=%q timeout=%v\n", c.Harness, renderValues(c.Values), c.Note, r.Events, r.Panic, r.Timeout)
	for _, e := range r.Events {
		if strings.HasSuffix(e, ":false") || e == "PANIC" {
			fmt.Println("REPRODUCED:", e)
			return 1
		}
	}
	if r.Timeout {
		fmt.Println("REPRODUCED: timeout")
		return 1
	}
	return 0
}
