package main

// Registry of checks: which harnesses decide which property, with the bounds
// of the quick and thorough tiers.

type HarnessRun struct {
	Harness      string
	Quick        map[string]int
	Thorough     map[string]int
	ThoroughOnly bool
	SampleEvery  int
	Monitor      bool
	NoReinit     bool
	StepBudget   int
	MustReach    []string // outcome classes that must be reached (vacuity guard)
	PanicLabel   string   // label under which an escaping panic is reported
}

type Check struct {
	ID          string
	Title       string
	Runs        []HarnessRun
	Bounds      map[string]string
	Outside     []string
	Assumptions []string
}

var commonAssumptions = []string{
	"go/ssa (x/tools v0.29.0) builds a faithful SSA form of /repo's current working tree; the forked reference interpreter executes it faithfully (validated on every run by replaying sampled solver models natively and comparing observable event traces)",
	"z3 4.8.12 decides the bit-vector/FP queries correctly (any solver error line or unknown makes the obligation inconclusive, never discharged)",
	"environment models listed under coverage.stubs (utf8 byte-range model, math/bits as BV terms, sync single-threaded, fmt mini-formatter, strings.Builder byte-slice model, reflect type-tag model)",
	"a reported violation is only printed after the solver's model reproduced the failure against the natively compiled code",
}

func allChecks() []Check {
	return []Check{
		{
			ID: "C01", Title: "Parsing is total: a tree or an error, never a crash, hang or half-built tree",
			Runs: []HarnessRun{
				{Harness: "VP_C01_bytes", Quick: map[string]int{"L": 3}, Thorough: map[string]int{"L": 4}, MustReach: []string{"C01/bytes/accepted", "C01/bytes/rejected"}, PanicLabel: "C01/bytes/no-panic"},
				{Harness: "VP_C01_tokens", Quick: map[string]int{"K": 2}, Thorough: map[string]int{"K": 3}, MustReach: []string{"C01/tokens/accepted", "C01/tokens/rejected"}, PanicLabel: "C01/tokens/no-panic"},
			},
			Bounds: map[string]string{"bytes": "ParseSourceCode on every text of exactly L symbolic bytes (valid UTF-8 or not); quick L=3, thorough L=4; every path must end within the step budget (unwinding check)",
				"tokens": "the real parser with full error recovery over every sequence of exactly K tokens (symbolic kinds over the whole scanner image, symbolic line-break flags) through a stub scanner; quick K=2, thorough K=3"},
			Outside:     []string{"inputs longer than the bounds (64 KiB texts, deep nesting, long operator chains)", "running time proportional to input length"},
			Assumptions: commonAssumptions,
		},
		{
			ID: "C02", Title: "The tree follows the grammar: precedence, associativity, binding, rejection",
			Runs: []HarnessRun{
				{Harness: "VP_C02_tokens", Quick: map[string]int{"K": 3}, Thorough: map[string]int{"K": 4}, MustReach: []string{"C02/tokens/derivable", "C02/tokens/underivable"}, PanicLabel: "C02/tokens/no-panic"},
				{Harness: "VP_C02_ops", Quick: map[string]int{"N": 3, "P": 0}, Thorough: map[string]int{"N": 3, "P": 0}, MustReach: []string{"C02/ops/derivable", "C02/ops/underivable"}, PanicLabel: "C02/ops/no-panic"},
				{Harness: "VP_C02_ops", Quick: map[string]int{"N": 1, "P": 1}, Thorough: map[string]int{"N": 2, "P": 1}, MustReach: []string{"C02/ops/derivable"}, PanicLabel: "C02/ops/no-panic"},
				{Harness: "VP_C02_lists", Quick: map[string]int{"K": 2}, Thorough: map[string]int{"K": 3}, MustReach: []string{"C02/lists/derivable", "C02/lists/underivable"}, PanicLabel: "C02/lists/no-panic"},
			},
			Bounds: map[string]string{"tokens": "differential: real parser (stub scanner, cut at first diagnostic) vs a reference parser written from the statement, on every sequence of exactly K tokens over the full alphabet with symbolic line-break flags; accept/reject must agree and trees are compared structurally; quick K=3, thorough K=4",
				"ops":   "a op b op c op d with N symbolic operators over all binary operators, ',', '=', '?', ':' (N=3: all triples); with P=1 one operand (symbolic choice) carries symbolic prefix operators/typeof and a postfix .name or ()",
				"lists": "[ t1..tK ] and a( t1..tK ) with K symbolic inner tokens and a symbolic line-break flag on the closing token; quick K=2, thorough K=3"},
			Outside:     []string{"token sequences longer than the layers", "f(...) with no argument before the spread and whether the name after '.' may start on the next line (statement silent: assumed away)", "token-internal scanner errors (malformed literals) at token level"},
			Assumptions: append([]string{"token-level harnesses replace (*Scanner).Scan by a stub that returns symbolic token kinds from the scanner image established by C14/scanstep (kind-in-image); native replays render the tokens to text and run the real scanner"}, commonAssumptions...),
		},
		{
			ID: "C12", Title: "Numeric literals denote exactly the decimal number written",
			Runs: []HarnessRun{
				{Harness: "VP_C12_literals", Quick: map[string]int{"L": 4}, Thorough: map[string]int{"L": 6}, MustReach: []string{"C12/literals/wellformed", "C12/literals/malformed"}, PanicLabel: "C12/literals/no-panic"},
			},
			Bounds:      map[string]string{"literals": "every text of 1..L bytes over the alphabet {0-9 . e E + - _ a} that is exactly one literal candidate per the reference recogniser, in three syntactic positions (bare, [lit], 1?(lit):0); digits stay symbolic inside the class; quick L=4, thorough L=6"},
			Outside:     []string{"literals longer than L bytes (40-digit parts)", "identifier characters other than 'a' directly after a literal (the class test IsIdentifierStart is C14's subject)"},
			Assumptions: commonAssumptions,
		},
		{
			ID: "C13", Title: "String literals round-trip every text through quoting and escaping",
			Runs: []HarnessRun{
				{Harness: "VP_C13_roundtrip", Quick: map[string]int{"L": 2}, Thorough: map[string]int{"L": 3}, MustReach: []string{"C13/roundtrip/done"}, PanicLabel: "C13/roundtrip/no-panic"},
				{Harness: "VP_C13_open", Quick: map[string]int{"L": 2}, Thorough: map[string]int{"L": 3}, MustReach: []string{"C13/open/done"}, PanicLabel: "C13/open/no-panic"},
			},
			Bounds:      map[string]string{"roundtrip": "every text of 0..L symbolic bytes (incl. invalid UTF-8), both quote styles, every choice among the equivalent escape forms (verbatim, named, \\xHH, \\uHHHH, upper/lower hex) per character; quick L=2, thorough L=3", "open": "bodies of 0..L bytes without the delimiter/backslash, left open at end of input or at each of the five line-break code points"},
			Outside:     []string{"texts longer than L bytes"},
			Assumptions: commonAssumptions,
		},
		{
			ID: "C14", Title: "Tokens tile the input; longest match; spacing is insignificant",
			Runs: []HarnessRun{
				{Harness: "VP_C14_tables", Quick: map[string]int{}, MustReach: []string{"C14/tables/done"}},
				{Harness: "VP_C14_classes", Quick: map[string]int{}, MustReach: []string{"C14/classes/done"}},
				{Harness: "VP_C14_scanstep", Quick: map[string]int{"L": 3}, Thorough: map[string]int{"L": 4}, MustReach: []string{"C14/scanstep/done"}, PanicLabel: "C14/scanstep/no-panic"},
			},
			Bounds:      map[string]string{"classes": "every code point 0..0x10FFFF (one symbolic 32-bit rune)", "scanstep": "one Scan() from every start position of every text of L symbolic bytes (inductive step: tiling for all texts of that size follows by induction over calls); quick L=3, thorough L=4"},
			Outside:     []string{"contents of the ES5 identifier tables (no independent oracle)", "texts longer than the bound"},
			Assumptions: commonAssumptions,
		},
		{
			ID: "C15", Title: "Source ranges nest and re-parse; errors point at the right line and column",
			Runs: []HarnessRun{
				{Harness: "VP_C15_linecol", Quick: map[string]int{"L": 4}, Thorough: map[string]int{"L": 5}, MustReach: []string{"C15/linecol/done"}},
				{Harness: "VP_C15_binsearch", Quick: map[string]int{"N": 5}, Thorough: map[string]int{"N": 7}, MustReach: []string{"C15/binsearch/done"}},
				{Harness: "VP_C15_ranges", Quick: map[string]int{"L": 3}, Thorough: map[string]int{"L": 4}, MustReach: []string{"C15/ranges/accepted", "C15/errtext/diagnostic"}, PanicLabel: "C15/ranges/no-panic"},
			},
			Bounds:      map[string]string{"ranges": "real parse of every text of L symbolic bytes: node ranges within the text, children nested in source order, text[pos:end] of every expression node re-parsed and compared; for rejected texts the error string equals pos(l, c) error(code) msg with (l,c) from the direct count at Diagnostics[0].Start; quick L=3, thorough L=4", "linecol": "all texts of exactly L bytes (every byte symbolic) x every offset 0..L; quick L=4, thorough L=5", "binsearch": "strictly increasing arrays of 0..N symbolic 64-bit ints; quick N=5, thorough N=7"},
			Outside:     []string{"texts longer than the bound"},
			Assumptions: commonAssumptions,
		},
	}
}
