package main

// Registry of checks: which harnesses decide which property, with the bounds
// of the quick and thorough tiers.

type HarnessRun struct {
	Harness      string
	Quick        map[string]int
	Thorough     map[string]int
	ThoroughOnly bool
	SampleEvery  int
	Monitor      bool
	NoReinit     bool
	StepBudget   int
	MustReach    []string // outcome classes that must be reached (vacuity guard)
	PanicLabel   string   // label under which an escaping panic is reported
}

type Check struct {
	ID          string
	Title       string
	Runs        []HarnessRun
	Bounds      map[string]string
	Outside     []string
	Assumptions []string
}

var commonAssumptions = []string{
	"go/ssa (x/tools v0.29.0) builds a faithful SSA form of /repo's current working tree; the forked reference interpreter executes it faithfully (validated on every run by replaying sampled solver models natively and comparing observable event traces)",
	"z3 4.8.12 decides the bit-vector/FP queries correctly (any solver error line or unknown makes the obligation inconclusive, never discharged)",
	"environment models listed under coverage.stubs (utf8 byte-range model, math/bits as BV terms, sync single-threaded, fmt mini-formatter, strings.Builder byte-slice model, reflect type-tag model)",
	"a reported violation is only printed after the solver's model reproduced the failure against the natively compiled code",
}

func allChecks() []Check {
	return []Check{
		{
			ID: "C15", Title: "Source ranges nest and re-parse; errors point at the right line and column",
			Runs: []HarnessRun{
				{Harness: "VP_C15_linecol", Quick: map[string]int{"L": 4}, Thorough: map[string]int{"L": 5}, MustReach: []string{"C15/linecol/done"}},
				{Harness: "VP_C15_binsearch", Quick: map[string]int{"N": 5}, Thorough: map[string]int{"N": 7}, MustReach: []string{"C15/binsearch/done"}},
			},
			Bounds:      map[string]string{"linecol": "all texts of exactly L bytes (every byte symbolic) x every offset 0..L; quick L=4, thorough L=5", "binsearch": "strictly increasing arrays of 0..N symbolic 64-bit ints; quick N=5, thorough N=7"},
			Outside:     []string{"texts longer than the bound"},
			Assumptions: commonAssumptions,
		},
	}
}
