package main

// Registry of checks: which harnesses decide which property, with the bounds
// of the quick and thorough tiers.

type HarnessRun struct {
	Harness      string
	Quick        map[string]int
	Thorough     map[string]int
	ThoroughOnly bool
	SampleEvery  int
	Monitor      bool
	NoReinit     bool
	StepBudget   int
	MustReach    []string // outcome classes that must be reached (vacuity guard)
	PanicLabel   string   // label under which an escaping panic is reported
}

type Check struct {
	ID          string
	Title       string
	Runs        []HarnessRun
	Bounds      map[string]string
	Outside     []string
	Assumptions []string
}

var commonAssumptions = []string{
	"go/ssa (x/tools v0.29.0) builds a faithful SSA form of /repo's current working tree; the forked reference interpreter executes it faithfully (validated on every run by replaying sampled solver models natively and comparing observable event traces)",
	"z3 4.8.12 decides the bit-vector/FP queries correctly (any solver error line or unknown makes the obligation inconclusive, never discharged)",
	"environment models listed under coverage.stubs (utf8 byte-range model, math/bits as BV terms, sync single-threaded, fmt mini-formatter, strings.Builder byte-slice model, reflect type-tag model)",
	"a reported violation is only printed after the solver's model reproduced the failure against the natively compiled code",
}

func allChecks() []Check {
	return []Check{
		{
			ID: "C01", Title: "Parsing is total: a tree or an error, never a crash, hang or half-built tree",
			Runs: []HarnessRun{
				{Harness: "VP_C01_bytes", Quick: map[string]int{"L": 3}, Thorough: map[string]int{"L": 4}, MustReach: []string{"C01/bytes/accepted", "C01/bytes/rejected"}, PanicLabel: "C01/bytes/no-panic"},
			},
			Bounds:      map[string]string{"bytes": "ParseSourceCode on every text of exactly L symbolic bytes (valid UTF-8 or not); quick L=3, thorough L=4; every path must end within the step budget (unwinding check)"},
			Outside:     []string{"inputs longer than the bounds (64 KiB texts, deep nesting, long operator chains)", "running time proportional to input length"},
			Assumptions: commonAssumptions,
		},
		{
			ID: "C12", Title: "Numeric literals denote exactly the decimal number written",
			Runs: []HarnessRun{
				{Harness: "VP_C12_literals", Quick: map[string]int{"L": 4}, Thorough: map[string]int{"L": 6}, MustReach: []string{"C12/literals/wellformed", "C12/literals/malformed"}, PanicLabel: "C12/literals/no-panic"},
			},
			Bounds:      map[string]string{"literals": "every text of 1..L bytes over the alphabet {0-9 . e E + - _ a} that is exactly one literal candidate per the reference recogniser, in three syntactic positions (bare, [lit], 1?(lit):0); digits stay symbolic inside the class; quick L=4, thorough L=6"},
			Outside:     []string{"literals longer than L bytes (40-digit parts)", "identifier characters other than 'a' directly after a literal (the class test IsIdentifierStart is C14's subject)"},
			Assumptions: commonAssumptions,
		},
		{
			ID: "C13", Title: "String literals round-trip every text through quoting and escaping",
			Runs: []HarnessRun{
				{Harness: "VP_C13_roundtrip", Quick: map[string]int{"L": 2}, Thorough: map[string]int{"L": 3}, MustReach: []string{"C13/roundtrip/done"}, PanicLabel: "C13/roundtrip/no-panic"},
				{Harness: "VP_C13_open", Quick: map[string]int{"L": 2}, Thorough: map[string]int{"L": 3}, MustReach: []string{"C13/open/done"}, PanicLabel: "C13/open/no-panic"},
			},
			Bounds:      map[string]string{"roundtrip": "every text of 0..L symbolic bytes (incl. invalid UTF-8), both quote styles, every choice among the equivalent escape forms (verbatim, named, \\xHH, \\uHHHH, upper/lower hex) per character; quick L=2, thorough L=3", "open": "bodies of 0..L bytes without the delimiter/backslash, left open at end of input or at each of the five line-break code points"},
			Outside:     []string{"texts longer than L bytes"},
			Assumptions: commonAssumptions,
		},
		{
			ID: "C14", Title: "Tokens tile the input; longest match; spacing is insignificant",
			Runs: []HarnessRun{
				{Harness: "VP_C14_tables", Quick: map[string]int{}, MustReach: []string{"C14/tables/done"}},
				{Harness: "VP_C14_classes", Quick: map[string]int{}, MustReach: []string{"C14/classes/done"}},
				{Harness: "VP_C14_scanstep", Quick: map[string]int{"L": 3}, Thorough: map[string]int{"L": 4}, MustReach: []string{"C14/scanstep/done"}, PanicLabel: "C14/scanstep/no-panic"},
			},
			Bounds:      map[string]string{"classes": "every code point 0..0x10FFFF (one symbolic 32-bit rune)", "scanstep": "one Scan() from every start position of every text of L symbolic bytes (inductive step: tiling for all texts of that size follows by induction over calls); quick L=3, thorough L=4"},
			Outside:     []string{"contents of the ES5 identifier tables (no independent oracle)", "texts longer than the bound"},
			Assumptions: commonAssumptions,
		},
		{
			ID: "C15", Title: "Source ranges nest and re-parse; errors point at the right line and column",
			Runs: []HarnessRun{
				{Harness: "VP_C15_linecol", Quick: map[string]int{"L": 4}, Thorough: map[string]int{"L": 5}, MustReach: []string{"C15/linecol/done"}},
				{Harness: "VP_C15_binsearch", Quick: map[string]int{"N": 5}, Thorough: map[string]int{"N": 7}, MustReach: []string{"C15/binsearch/done"}},
			},
			Bounds:      map[string]string{"linecol": "all texts of exactly L bytes (every byte symbolic) x every offset 0..L; quick L=4, thorough L=5", "binsearch": "strictly increasing arrays of 0..N symbolic 64-bit ints; quick N=5, thorough N=7"},
			Outside:     []string{"texts longer than the bound"},
			Assumptions: commonAssumptions,
		},
	}
}
