package main

// Registry of checks: which harnesses decide which property, with the bounds
// of the quick and thorough tiers.

type HarnessRun struct {
	Harness      string
	Quick        map[string]int
	Thorough     map[string]int
	ThoroughOnly bool
	SampleEvery  int
	Monitor      bool
	NoReinit     bool
	StepBudget   int
	MaxPaths     int
	TimeoutS     int
	MustReach    []string // outcome classes that must be reached (vacuity guard)
	PanicLabel   string   // label under which an escaping panic is reported
}

type Check struct {
	ID          string
	Title       string
	Runs        []HarnessRun
	Bounds      map[string]string
	Outside     []string
	Assumptions []string
	Race        bool // native replays run under the race detector
}

var commonAssumptions = []string{
	"go/ssa (x/tools v0.29.0) builds a faithful SSA form of /repo's current working tree; the forked reference interpreter executes it faithfully (validated on every run by replaying sampled solver models natively and comparing observable event traces)",
	"z3 4.8.12 decides the bit-vector/FP queries correctly (any solver error line or unknown makes the obligation inconclusive, never discharged)",
	"environment models listed under coverage.stubs (utf8 byte-range model, math/bits as BV terms, sync single-threaded, fmt mini-formatter, strings.Builder byte-slice model, reflect type-tag model)",
	"a reported violation is only printed after the solver's model reproduced the failure against the natively compiled code",
}

func allChecks() []Check {
	return []Check{
		{
			ID: "C01", Title: "Parsing is total: a tree or an error, never a crash, hang or half-built tree",
			Runs: []HarnessRun{
				{Harness: "VP_C01_scaling", Quick: map[string]int{}, MustReach: []string{"C01/scaling/done"}, PanicLabel: "C01/scaling/no-panic", SampleEvery: 2},
				{Harness: "VP_C01_pool", Quick: map[string]int{}, MustReach: []string{"C01/bytes/accepted", "C01/bytes/rejected"}, PanicLabel: "C01/pool/no-panic", SampleEvery: 3},
				{Harness: "VP_C01_bytes", Quick: map[string]int{"L": 3}, Thorough: map[string]int{"L": 3}, MustReach: []string{"C01/bytes/accepted", "C01/bytes/rejected"}, PanicLabel: "C01/bytes/no-panic"},
				{Harness: "VP_C01_lists", Quick: map[string]int{"K": 3}, Thorough: map[string]int{"K": 3}, MustReach: []string{"C01/lists/accepted", "C01/lists/rejected"}, PanicLabel: "C01/lists/no-panic"},
				{Harness: "VP_C01_tokens", Quick: map[string]int{"K": 2}, Thorough: map[string]int{"K": 2}, MustReach: []string{"C01/tokens/accepted", "C01/tokens/rejected"}, PanicLabel: "C01/tokens/no-panic"},
			},
			Bounds: map[string]string{"tiers": "the thorough tier of this check runs the quick-tier parameters (larger bounds were not validated on the unchanged tree within the session and are therefore not registered)", "scaling": "CONCRETE SHAPES (not symbolic): 18 input shapes (operator chains, unclosed and closed nesting, lists of stray tokens that raise one diagnostic each, member / call chains, prefix runs, long strings, several lines) parsed at two lengths, the second four times the first: the number of SSA instructions the engine executes grows at most six-fold (natively: elapsed time at 4096 / 16384 units, used only to confirm a candidate)",
				"pool":   "CONCRETE POOL: totality and completeness on 98 longer formulas (keywords as member names and operands, nested lists and conditionals, truncated constructs; member names on the line after their dot followed by stray bytes inside lists: a text with a byte that starts no token is a syntax error)",
				"bytes":  "ParseSourceCode on every text of exactly L symbolic bytes (valid UTF-8 or not); quick L=3, thorough L=4; every path must end within the step budget (unwinding check)",
				"lists":  "a( t1..tK ) and [ t1..tK ] over the 10 tokens the list loops distinguish, symbolic line-break flags, full error recovery (quick K=3, thorough K=4); bytes: every text is parsed twice and both calls must agree",
				"tokens": "the real parser with full error recovery over every sequence of exactly K tokens (symbolic kinds over the whole scanner image, symbolic line-break flags) through a stub scanner; quick K=2, thorough K=3"},
			Outside:     []string{"inputs longer than the bounds (64 KiB texts, deep nesting, long operator chains) for the symbolic runs", "running time in general: C01/scaling compares the cost at two lengths for 18 input shapes only"},
			Assumptions: commonAssumptions,
		},
		{
			ID: "C02", Title: "The tree follows the grammar: precedence, associativity, binding, rejection",
			Runs: []HarnessRun{
				{Harness: "VP_C02_pool", Quick: map[string]int{}, MustReach: []string{"C02/bytes/derivable", "C02/bytes/underivable"}, PanicLabel: "C02/pool/no-panic", SampleEvery: 3},
				{Harness: "VP_C02_tokens", Quick: map[string]int{"K": 3}, Thorough: map[string]int{"K": 3}, MustReach: []string{"C02/tokens/derivable", "C02/tokens/underivable"}, PanicLabel: "C02/tokens/no-panic"},
				{Harness: "VP_C02_ops", Quick: map[string]int{"N": 3, "P": 0, "ALPHA": 0}, Thorough: map[string]int{"N": 3, "P": 0, "ALPHA": 0}, MustReach: []string{"C02/ops/derivable", "C02/ops/underivable"}, PanicLabel: "C02/ops/no-panic"},
				{Harness: "VP_C02_ops", Quick: map[string]int{"N": 4, "P": 0, "ALPHA": 1}, Thorough: map[string]int{"N": 4, "P": 0, "ALPHA": 1}, MustReach: []string{"C02/ops/derivable"}, PanicLabel: "C02/ops/no-panic"},
				{Harness: "VP_C02_bytes", Quick: map[string]int{"L": 6, "ALPHA": 1}, Thorough: map[string]int{"L": 6, "ALPHA": 1}, MustReach: []string{"C02/bytes/invalid", "C02/bytes/derivable"}, PanicLabel: "C02/bytes/no-panic"},
				{Harness: "VP_C02_bytes", Quick: map[string]int{"L": 2, "ALPHA": 0}, Thorough: map[string]int{"L": 2, "ALPHA": 0}, MustReach: []string{"C02/bytes/derivable", "C02/bytes/underivable"}, PanicLabel: "C02/bytes/no-panic"},
				{Harness: "VP_C02_ops", Quick: map[string]int{"N": 1, "P": 1, "ALPHA": 0}, Thorough: map[string]int{"N": 1, "P": 1, "ALPHA": 0}, MustReach: []string{"C02/ops/derivable"}, PanicLabel: "C02/ops/no-panic"},
				{Harness: "VP_C02_lists", Quick: map[string]int{"K": 2}, Thorough: map[string]int{"K": 2}, MustReach: []string{"C02/lists/derivable", "C02/lists/underivable"}, PanicLabel: "C02/lists/no-panic"},
				{Harness: "VP_C02_postfix", Quick: map[string]int{"K": 5, "CUT": 0}, Thorough: map[string]int{"K": 5, "CUT": 0}, MustReach: []string{"C02/postfix/derivable", "C02/postfix/underivable"}, PanicLabel: "C02/postfix/no-panic"},
			},
			Bounds: map[string]string{"tiers": "the thorough tier of this check runs the quick-tier parameters (the larger bounds mentioned below were not validated on the unchanged tree within the session and are therefore not registered)", "tokens": "differential: real parser (stub scanner, cut at first diagnostic) vs a reference parser written from the statement, on every sequence of exactly K tokens over the full alphabet with symbolic line-break flags; accept/reject must agree and trees are compared structurally; quick K=3, thorough K=4",
				"ops":       "a op b op c op d with N symbolic operators over all binary operators, ',', '=', '?', ':' (N=3: all triples); with P=1 one operand (symbolic choice) carries symbolic prefix operators/typeof and a postfix .name or ()",
				"ops-assoc": "chains of N operators over the associativity-sensitive sub-alphabet {? : = , + || *} (N=4 quick, 5 thorough): nested conditionals, assignment chains, comma",
				"bytes":     "integration without the stub: real scanner+parser on every text of L symbolic bytes vs reference tokenizer + reference parser (quick L=2, thorough L=3), and on every text of L bytes over the literal-adjacent alphabet {- 0 x 1 space .} (quick L=6, thorough L=7); a literal immediately followed by an identifier character must be rejected",
				"postfix":   "a primary followed by K symbolic tokens over { . !. ( ) name , } with symbolic line-break flags (member access / call chains), parsed with full error recovery (no cut: a diagnostic recorded early must still make the parse fail); quick K=5, thorough K=6",
				"lists":     "[ t1..tK ] and a( t1..tK ) with K symbolic inner tokens and a symbolic line-break flag on the closing token; quick K=2, thorough K=3"},
			Outside:     []string{"token sequences longer than the layers", "f(...) with no argument before the spread and whether the name after '.' may start on the next line (statement silent: assumed away)", "token-internal scanner errors (malformed literals) at token level"},
			Assumptions: append([]string{"token-level harnesses replace (*Scanner).Scan by a stub that returns symbolic token kinds from the scanner image established by C14/scanstep (kind-in-image); native replays render the tokens to text and run the real scanner"}, commonAssumptions...),
		},
		{
			ID: "C03", Title: "Evaluation is total: a value or an error, never a panic",
			Runs: []HarnessRun{
				{Harness: "VP_C03_extreme", Quick: map[string]int{"ONLY": -1}, MustReach: []string{"C03/extreme/done"}, PanicLabel: "C03/extreme/no-panic", SampleEvery: 2},
				{Harness: "VP_smoke_eval", Quick: map[string]int{"FROM": 0, "TO": 1000}, SampleEvery: 1, PanicLabel: "C03/smoke/no-panic"},
				{Harness: "VP_C03_calls", Quick: map[string]int{"A": 2}, Thorough: map[string]int{"A": 2}, MustReach: []string{"C03/calls/value", "C03/calls/error"}, PanicLabel: "C03/calls/no-panic"},
				{Harness: "VP_C03_ops", Quick: map[string]int{}, MustReach: []string{"C03/ops/value", "C03/ops/error"}, PanicLabel: "C03/ops/no-panic"},
				{Harness: "VP_C03_positions", Quick: map[string]int{"S": 2}, Thorough: map[string]int{"S": 2}, MustReach: []string{"C03/positions/value", "C03/positions/error"}, PanicLabel: "C03/positions/no-panic"},
			},
			Bounds: map[string]string{"tiers": "the thorough tier of this check runs the quick-tier parameters (larger bounds were not validated on the unchanged tree within the session and are therefore not registered)", "extreme": "CONCRETE POOL (not symbolic): 45 short formulas at the extremes (exponents to 10^+-999999999 under every numeric builtin and operator, pad lengths up to 9e18, locals bound to `this` and then printed / compared / padded): each terminates with a value or an error; three of them are the listed known finding",
				"calls":     "a call of each of the 48 builtin names and of 10 other names (missing name, non-function, host functions with a trailing slice / one / three / non-error results / interface / map / variadic parameters, a boolean) with 0..A arguments, each over 11 argument kinds (null, typed nil pointer, symbolic bool, numbers and strings from concrete pools incl. an invalid regular expression, arrays, map, slice of maps, time, func), with and without spread; quick A=2, thorough A=3",
				"ops":       "every binary and prefix operator, typeof, ?:, member access (. and !.) on maps/structs/other kinds, array literal and assignment over every pair of operand kinds",
				"positions": "left/right/mid/lpad/rpad with strings of 0..S symbolic bytes and every position in -4..7",
				"smoke":     "translator validation: 83 fixed formulas evaluated in the engine and natively, results must be identical"},
			Outside:     []string{"symbolic numeric values inside sqrt/exp/ln/log/'/' (concrete pool only)", "regexp with a symbolic pattern or subject", "pad lengths beyond 7", "formulas longer than one operator/call", "host functions that panic themselves"},
			Assumptions: append([]string{"time.LoadLocation is modelled (Asia/Shanghai = fixed +08:00, UTC, Local; any other name is unknown)"}, commonAssumptions...),
		},
		{
			ID: "C04", Title: "Decimal arithmetic is exact; nothing passes through binary floating point",
			Runs: []HarnessRun{
				{Harness: "VP_C04_entry_float", Quick: map[string]int{}, MustReach: []string{"C04/entry-float/done"}, PanicLabel: "C04/entry-float/no-panic", SampleEvery: 1},
				{Harness: "VP_C04_handback", Quick: map[string]int{}, MustReach: []string{"C04/handback/done"}, PanicLabel: "C04/handback/no-panic", SampleEvery: 1},
				{Harness: "VP_C04_handback_ulp", Quick: map[string]int{}, MustReach: []string{"C04/handback-ulp/done"}, PanicLabel: "C04/handback-ulp/no-panic", SampleEvery: 1},
				{Harness: "VP_C04_wide", Quick: map[string]int{}, MustReach: []string{"C04/wide/done"}, PanicLabel: "C04/wide/no-panic", SampleEvery: 3},
				{Harness: "VP_C04_twice", Quick: map[string]int{}, MustReach: []string{"C04/twice/done"}, PanicLabel: "C04/twice/no-panic", SampleEvery: 1},
				{Harness: "VP_C04_quo", Quick: map[string]int{}, MustReach: []string{"C04/quo/done"}, PanicLabel: "C04/quo/no-panic", SampleEvery: 3},
				{Harness: "VP_C04_entry_int", Quick: map[string]int{"LO": 0, "HI": 63}, MustReach: []string{"C04/entry-int/done"}, PanicLabel: "C04/entry-int/no-panic"},
				{Harness: "VP_C04_entry_int", Quick: map[string]int{"LO": -1, "HI": 0}, MustReach: []string{"C04/entry-int/done"}, PanicLabel: "C04/entry-int/no-panic"},
				{Harness: "VP_C04_arith", Quick: map[string]int{"OP": 0, "CB": 1000000, "E": 1, "DB": 0}, Thorough: map[string]int{"OP": 0, "CB": 1000000000, "E": 2, "DB": 0}, MustReach: []string{"C04/arith/done"}, PanicLabel: "C04/arith/no-panic"},
				{Harness: "VP_C04_arith", Quick: map[string]int{"OP": 1, "CB": 1000000, "E": 1, "DB": 0}, Thorough: map[string]int{"OP": 1, "CB": 1000000000, "E": 2, "DB": 0}, MustReach: []string{"C04/arith/done"}, PanicLabel: "C04/arith/no-panic"},
				{Harness: "VP_C04_arith", Quick: map[string]int{"OP": 2, "CB": 100000, "E": 1, "DB": 0}, Thorough: map[string]int{"OP": 2, "CB": 1000000, "E": 2, "DB": 0}, MustReach: []string{"C04/arith/done"}, PanicLabel: "C04/arith/no-panic"},
				{Harness: "VP_C04_arith", Quick: map[string]int{"OP": 2, "CB": 4294967296, "E": 0, "DB": 0}, MustReach: []string{"C04/arith/done"}, PanicLabel: "C04/arith/no-panic"},
				{Harness: "VP_C04_arith", Quick: map[string]int{"OP": 3, "CB": 1000, "E": 1, "DB": 6}, Thorough: map[string]int{"OP": 3, "CB": 1000, "E": 1, "DB": 30}, MustReach: []string{"C04/arith/done"}, PanicLabel: "C04/arith/no-panic"},
			},
			Bounds: map[string]string{"arith": "[a OP b] evaluated by the real runner for a, b = (-1)^s * c * 10^e with symbolic sign and coefficient c < CB and every exponent pair in [-E,E]^2 (real decimal add/mul/quorem code executed symbolically) vs exact integer arithmetic at the common exponent; result context asserted to be precision 34 / half-even; OP 0,1 (+,-): CB=10^6 quick / 10^9 thorough; OP 2 (*): CB=10^5 / 10^6; OP 3 (%): the divisor's coefficient is case-split over 1..DB-1 (symbolic-by-symbolic division does not finish), dividend c < 1000",
				"arith-mul32":  "'*' with both coefficients symbolic below 2^32 at exponent 0: every product up to 2^64 incl. the window [2^63, 2^64) where a signed 64-bit intermediate would wrap",
				"twice":        "CONCRETE POOL (not symbolic): 15 formulas (the statement's examples, negated literals, literals next to int / int64 / float64 data) parsed once and evaluated three times in fresh runners: every evaluation gives the same exact result",
				"quo":          "CONCRETE POOL (not symbolic): 121 quotients incl. exact ties at the 35th digit, 34-digit operands, operands around 2^63 / 2^64, mixed signs and exponents; expected values computed independently (Python decimal prec 34 ROUND_HALF_EVEN)",
				"entry-float":  "CONCRETE POOL (not symbolic): 18 float64 data values incl. 0.1, 0.3, 2^53+1, 1e19, 2^63, 1e22, 5e-324, MaxFloat64 with hand-written expected decimal (coefficient, exponent); strconv's shortest formatting of a symbolic float is not encodable",
				"wide":         "CONCRETE POOL (not symbolic): 354 cases of + - * % on operands of up to 34 digits (incl. a systematic family of results just below/above a power of ten with exponent gaps 32..36) incl. results that must be rounded half-even to 34 digits; expected values computed independently (Python decimal prec 34 ROUND_HALF_EVEN, exact big integers for %)",
				"handback-ulp": "CONCRETE POOL (not symbolic): 21 formulas whose result is outside the exactly-handed-back class (34-digit quotients, 17-35 digit literals, subnormal and extreme magnitudes, half-way cases): the float64 is within four units in the last place of the correctly rounded one (computed independently)",
				"handback":     "CONCRETE POOL (not symbolic): 18 formulas whose result is an integer of at most 15 digits scaled by a power of ten within 10^-22..10^22 (incl. 19-digit values beyond 2^63): the float64 handed back by Resolve must be the nearest one",
				"entry-int":    "a Go int64 / int / int32 data value n (one symbolic 64-bit value, 1 <= |n| < 2^63, plus |n| < 1000 incl. 0) read back through the evaluator equals n exactly"},
			Outside:     []string{"n = MinInt64", "'/' on symbolic operands (the library scales the dividend by 10^34 into math/big: division on symbolic words does not finish in any back end; a concrete pool is checked instead)", "results beyond 34 digits (the half-even rounding regime needs coefficients beyond 64 bits)", "float64 data values and the final float64 hand-back (strconv formatting/parsing of symbolic floats is not encodable)", "chains of operations"},
			Assumptions: commonAssumptions,
		},
		{
			ID: "C05", Title: "Ordering and equality are lawful and representation-independent",
			Runs: []HarnessRun{
				{Harness: "VP_C05_pool", Quick: map[string]int{}, MustReach: []string{"C05/pool/done"}, PanicLabel: "C05/pool/no-panic", SampleEvery: 7},
				{Harness: "VP_C05_numbers", Quick: map[string]int{"CB": 10, "E": 0, "WIDE": 0, "NEAR": 1}, Thorough: map[string]int{"CB": 10, "E": 0, "WIDE": 0, "NEAR": 2}, MustReach: []string{"C05/numbers/done"}, PanicLabel: "C05/numbers/no-panic"},
				{Harness: "VP_C05_numbers", Quick: map[string]int{"CB": 100, "E": 1, "WIDE": 20, "NEAR": 0}, Thorough: map[string]int{"CB": 1000, "E": 1, "WIDE": 36, "NEAR": 0}, MustReach: []string{"C05/numbers/done"}, PanicLabel: "C05/numbers/no-panic"},
				{Harness: "VP_C05_numbers", Quick: map[string]int{"CB": 1000000, "E": 2, "WIDE": 0, "NEAR": 0}, Thorough: map[string]int{"CB": 1000000000, "E": 4, "WIDE": 0, "NEAR": 0}, MustReach: []string{"C05/numbers/done"}, PanicLabel: "C05/numbers/no-panic"},
				{Harness: "VP_C05_strings", Quick: map[string]int{"S": 3}, Thorough: map[string]int{"S": 5}, MustReach: []string{"C05/strings/done"}, PanicLabel: "C05/strings/no-panic"},
				{Harness: "VP_C05_kinds", Quick: map[string]int{}, MustReach: []string{"C05/kinds/done"}, PanicLabel: "C05/kinds/no-panic"},
			},
			Bounds: map[string]string{"pool": "CONCRETE POOL (not symbolic): 24 literal pairs (34-digit coefficients one unit apart, values that collapse in binary floating point, exponents to 10^+-6000 (the decimal128 range; beyond it unary minus underflows, which the statement does not cover), several spellings of one value) x both orders x both signs x eight operators through parser and runner",
				"numbers":      "a, b = (-1)^s * c * 10^e with symbolic sign and coefficient c < CB, every exponent pair in [-E,E]^2 (so every spelling 1, 1.0, 10e-1 of a value is a (c,e) pair), incl. -0; all eight operators evaluated by the real runner (real decimal.Cmp executed symbolically) vs exact integer order at the common exponent; quick CB=10^6,E=2; thorough CB=10^9,E=4",
				"numbers-near": "16-digit coefficients 8000000000000000+d (thorough: 9007199254740990+d), d < 8 symbolic, common exponent in {0,-7,-14}: distinct decimals that collapse in binary floating point",
				"numbers-wide": "the same with exponents from the sparse grid {0, 1, W/2, W-1, W} (one side also negated): values beyond 2^63 and up to 10^W apart; quick c<100, W=20; thorough c<1000, W=36",
				"strings":      "two strings of 0..S symbolic bytes vs an explicit byte-wise loop; quick S=3, thorough S=5",
				"kinds":        "operands over {null, typed nil pointer, bool, number (c<1000, e in -1..1), string (<=1 byte)}^2 for == != === !=="},
			Outside:     []string{"symbolic coefficients beyond 64 bits (34-digit values: concrete pool only)", "NaN / infinity ordering", "== and relational operators on operands of different kinds (statement silent)"},
			Assumptions: commonAssumptions,
		},
		{
			ID: "C06", Title: "One notion of truthiness drives every selection operator",
			Runs: []HarnessRun{
				{Harness: "VP_C06_effects", Quick: map[string]int{}, MustReach: []string{"C06/effects/done"}, PanicLabel: "C06/effects/no-panic", SampleEvery: 5},
				{Harness: "VP_C06_text", Quick: map[string]int{}, MustReach: []string{"C06/text/done"}, PanicLabel: "C06/text/no-panic", SampleEvery: 3},
				{Harness: "VP_C06_reeval", Quick: map[string]int{}, MustReach: []string{"C06/reeval/done"}, PanicLabel: "C06/reeval/no-panic", SampleEvery: 29},
				{Harness: "VP_C06_truthiness", Quick: map[string]int{}, MustReach: []string{"C06/done"}, PanicLabel: "C06/no-panic", SampleEvery: 13},
			},
			Bounds: map[string]string{"truthiness": "condition value over {null, typed nil pointer, bool, finite number (symbolic, incl. 0 and -0), NaN, +-Inf, string of 0..2 symbolic bytes, arrays, map, time, func} x {!!x, !x, c?a:b with recording branches, &&, ||, ??, one nested form}",
				"text":    "CONCRETE POOL (not symbolic): 25 formulas through the real parser whose condition is a computed value (prefix operators on numeric / non-numeric text, arithmetic that yields zero, toFloat of junk) or whose unselected arm would fail (malformed assignment target, missing function, failing assertion, out-of-range position)",
				"effects": "&&, ||, ??, ?: (both arms), !! and a comma form through the real parser with the left operand / condition a recording host function that returns a different value on every call, over 8 first values: evaluated exactly once, the judged value handed back, the unselected arm not run",
				"reeval":  "8 forms (this.c / c / this.m.c conditions, &&, ||, !!, typeof, ??) parsed once and evaluated against two data maps (8 x 8 values), on the same or a fresh runner: the second result follows the second map"},
			Outside:     []string{"!x on strings / composites / typed nil pointers (statement covers booleans, numbers and null)"},
			Assumptions: commonAssumptions,
		},
		{
			ID: "C07", Title: "Locals bind and sequence left to right; caller data is never modified",
			Runs: []HarnessRun{
				{Harness: "VP_C07_spread", Quick: map[string]int{}, MustReach: []string{"C07/spread/done"}, PanicLabel: "C07/spread/no-panic", SampleEvery: 1},
				{Harness: "VP_C07_rebind", Quick: map[string]int{}, MustReach: []string{"C07/rebind/done"}, PanicLabel: "C07/rebind/no-panic", SampleEvery: 5},
				{Harness: "VP_C07_reassign", Quick: map[string]int{}, MustReach: []string{"C07/reassign/done"}, PanicLabel: "C07/reassign/no-panic", SampleEvery: 29},
				{Harness: "VP_C07_locals", Quick: map[string]int{"N": 2, "D": 2}, Thorough: map[string]int{"N": 3, "D": 2}, MustReach: []string{"C07/locals/value", "C07/locals/error"}, PanicLabel: "C07/locals/no-panic"},
				{Harness: "VP_C07_sequencing", Quick: map[string]int{"W": 2}, MustReach: []string{"C07/sequencing/done"}, PanicLabel: "C07/sequencing/no-panic"},
				{Harness: "VP_C07_builtins", Quick: map[string]int{}, MustReach: []string{"C07/builtins/done"}, PanicLabel: "C07/builtins/no-panic"},
				{Harness: "VP_C07_operators", Quick: map[string]int{}, MustReach: []string{"C07/operators/done"}, PanicLabel: "C07/operators/no-panic", SampleEvery: 41},
			},
			Bounds: map[string]string{"operators": "$a = num, (FORM), [$a, num] through the real parser for 12 two-operand shapes x 14 operators and 11 one-operand shapes over 5 concrete numbers (incl. 19 digits): local, later read and caller's number unchanged, also when FORM fails; write monitor",
				"spread":     "CONCRETE POOL: 8 formulas in which a local is assigned in one argument of a (spread) call / array element and read in another: left-to-right order",
				"reassign":   "CONCRETE POOL: $a = v1 then $a = v2 for all pairs of 14 operands of every kind (numbers, numeric-looking strings, null, booleans, empty string, data reads, -0; many pairs loosely equal but of different kinds), in two evaluations by one runner / one comma sequence / chained through a second local: the assignment has v2's value, a later evaluation and a read further right see v2 with its kind",
				"rebind":     "4 successful assignments, then one of 7 assignments whose right-hand side fails, then a read in a third evaluation by the same runner: the earlier binding is still visible",
				"sequencing": "L , R where L is an assignment wrapped in up to two of {parentheses, selected/unselected-side/condition of a conditional, array element, call argument, nested comma} with fillers that read locals, and R reads $a / [$a,$b] / $b = $a; value, call count and visibility in a later evaluation against the reference",
				"builtins":   "$a = num, fn($a), fn(num), [$a, num] for each of 10 numeric builtins and a symbolic number (c < 1000, e in -2..0): the local and the caller's number still hold the original value; write monitor on the data map",
				"locals":     "programs chosen symbolically over {literal, $a/$b read, x/y read, $n = e, e,e, [e,e], f(e,e) (recording host function), c?e:e, (e), forbidden targets x=e, 1=e, x.k=e} with at most N+1 generated nodes, against a store-passing reference evaluator; frame condition by the engine's write monitor over every cell reachable from the data map plus a native-checkable snapshot comparison"},
			Outside:     []string{"programs larger than the bound"},
			Assumptions: append([]string{"write monitor: Store / map update / delete / clear instructions of the SSA code are intercepted; writes inside reflect.Value.Set* models are intercepted in SetMapIndex"}, commonAssumptions...),
		},
		{
			ID: "C08", Title: "Evaluation is a pure function of formula text and data",
			Runs: []HarnessRun{
				{Harness: "VP_C08_pool", Quick: map[string]int{}, MustReach: []string{"C08/pool/done"}, PanicLabel: "C08/pool/no-panic", SampleEvery: 3},
				{Harness: "VP_C08_parse", Quick: map[string]int{"L": 2}, Thorough: map[string]int{"L": 2}, MustReach: []string{"C08/parse/accepted", "C08/parse/rejected"}, PanicLabel: "C08/parse/no-panic"},
				{Harness: "VP_C08_eval", Quick: map[string]int{"N": 2, "D": 2}, Thorough: map[string]int{"N": 3, "D": 2}, MustReach: []string{"C08/eval/done"}, PanicLabel: "C08/eval/no-panic"},
			},
			Bounds: map[string]string{"parse": "every text of L symbolic bytes parsed twice with unrelated parsing/evaluation/analysis in between: same verdict, same error text / structurally identical trees; write monitor over every cell reachable from the package-level variables of formula (incl. the builtin table)",
				"eval": "programs of the C07 generator evaluated twice in fresh runners with equal data and analysed twice, unrelated work in between: same value / error / field set; the tree is compared with a separately built twin and monitored for writes"},
			Outside:     []string{"Go map iteration order (the engine iterates deterministically)", "caches inside dependencies (decimal's power table, pools): exempt and trusted", "now / toDay"},
			Assumptions: append([]string{"inductive formulation: if no operation ever writes hidden state, every history leaves the package in its initial state; the write monitor intercepts Store, map update, delete, clear, sync.Map.Store/Delete on monitored cells"}, commonAssumptions...),
		},
		{
			ID: "C09", Title: "A parsed formula can be shared across goroutines", Race: true,
			Runs: []HarnessRun{
				{Harness: "VP_C09_shared", Quick: map[string]int{"N": 2, "D": 2}, Thorough: map[string]int{"N": 3, "D": 2}, MustReach: []string{"C09/shared/done"}, PanicLabel: "C09/shared/no-panic"},
				{Harness: "VP_C09_shared", Quick: map[string]int{"N": 0, "D": 0}, MustReach: []string{"C09/shared/done"}, PanicLabel: "C09/shared/no-panic", SampleEvery: 1},
			},
			Bounds:      map[string]string{"shared": "for every program of the C07 generator and a concrete pool of 13 shared formulas (patterns, rounding, struct fields, and evaluations that END IN AN ERROR: '!.' on a null member chain, a missing function, a failing builtin): the operations a goroutine performs on a shared tree (Resolve with its own runner and data, ResolveReferenceFields, ParseSourceCode and FormatDiagnostic of another text) write no cell reachable from the tree or from the package-level state (sufficient condition for race freedom under the Go memory model); native replays run the same operations in 4 goroutines under the race detector"},
			Outside:     []string{"interleavings themselves are not explored (the solver decides the frame condition that makes them irrelevant)", "synchronisation inside dependencies and the standard library (sync.Map, decimal's atomic table) is trusted"},
			Assumptions: commonAssumptions,
		},
		{
			ID: "C10", Title: "Referenced-field analysis is exact and sufficient",
			Runs: []HarnessRun{
				{Harness: "VP_C10_text", Quick: map[string]int{}, MustReach: []string{"C10/text/done"}, PanicLabel: "C10/text/no-panic", SampleEvery: 1},
				{Harness: "VP_C10_fields", Quick: map[string]int{"N": 2, "D": 2}, Thorough: map[string]int{"N": 3, "D": 2}, MustReach: []string{"C10/fields/done", "C10/fields/refused"}, PanicLabel: "C10/fields/no-panic"},
			},
			Bounds:      map[string]string{"fields": "formulas chosen symbolically over identifiers (one name with a symbolic first byte in {'$','q'}), dotted paths of depth 2-3, literals, this, +, $l = e, ?:, arrays, parentheses, typeof, prefix -, calls, spread calls, callee paths, member access on a parenthesised expression; expected set from an independent walker; sufficiency by evaluating against the full and the restricted data map"},
			Outside:     []string{"whether an assignment target $x is listed (written, not read: accepted either way)", "formulas using this are not judged"},
			Assumptions: commonAssumptions,
		},
		{
			ID: "C16", Title: "Names and member access read the caller's data, null-safely",
			Runs: []HarnessRun{
				{Harness: "VP_C16_access", Quick: map[string]int{"D": 2}, Thorough: map[string]int{"D": 3}, MustReach: []string{"C16/access/value", "C16/access/error"}, PanicLabel: "C16/access/no-panic"},
				{Harness: "VP_C16_structs", Quick: map[string]int{"K": 2}, Thorough: map[string]int{"K": 3}, MustReach: []string{"C16/structs/done"}, PanicLabel: "C16/structs/no-panic", SampleEvery: 37},
			},
			Bounds:      map[string]string{"structs": "CONCRETE POOL: sequences of K field reads (Name / Age, '.' or '!.') over 6 struct values of different Go types that share field names at different positions (named, two anonymous with swapped order, a function-local type with the name of a package-level one, a wider anonymous struct, another named type), by one runner or fresh runners: every read gives that value's own field",
				"access": "root name from a pool of 17 (nested map, typed maps incl. zero values, struct, nil, typed nil pointer, int/int32/int64/float64/string/bool/time/slice, a key colliding with a builtin, missing, this) followed by 0..D selectors over a pool of 12 present/absent keys with symbolic '.' / '!.' flags, against a reference lookup written with type switches"},
			Outside:     []string{"member access on scalars, slices, times, pointers to structs and missing/unexported struct fields (statement silent; the latter is C03's subject)", "symbolic integer leaves (C04/entry)"},
			Assumptions: commonAssumptions,
		},
		{
			ID: "C17", Title: "String builtins obey the laws of prefix, suffix, slice and pad",
			Runs: []HarnessRun{
				{Harness: "VP_C17_case", Quick: map[string]int{}, MustReach: []string{"C17/case/done"}, PanicLabel: "C17/case/no-panic", SampleEvery: 1},
				{Harness: "VP_C17_regexp", Quick: map[string]int{}, MustReach: []string{"C17/regexp/done"}, PanicLabel: "C17/regexp/no-panic", SampleEvery: 23},
				{Harness: "VP_C17_search", Quick: map[string]int{"S": 3}, Thorough: map[string]int{"S": 5}, MustReach: []string{"C17/search/done"}, PanicLabel: "C17/search/no-panic"},
				{Harness: "VP_C17_slice", Quick: map[string]int{"S": 3}, Thorough: map[string]int{"S": 5}, MustReach: []string{"C17/slice/done"}, PanicLabel: "C17/slice/no-panic"},
				{Harness: "VP_C17_pad", Quick: map[string]int{"S": 3}, Thorough: map[string]int{"S": 4}, MustReach: []string{"C17/pad/done"}, PanicLabel: "C17/pad/no-panic"},
				{Harness: "VP_C17_transform", Quick: map[string]int{"S": 3}, Thorough: map[string]int{"S": 4}, MustReach: []string{"C17/transform/done"}, PanicLabel: "C17/transform/no-panic"},
				{Harness: "VP_C17_lists", Quick: map[string]int{"S": 2}, Thorough: map[string]int{"S": 3}, MustReach: []string{"C17/lists/done"}, PanicLabel: "C17/lists/no-panic"},
			},
			Bounds: map[string]string{"case": "CONCRETE POOL (not symbolic): lower / upper on 13 texts outside ASCII (Latin-1, Greek, Cyrillic, a title-case digraph, CJK mixed with ASCII) against hand-written simple case mappings",
				"regexp": "CONCRETE POOL (not symbolic): 30 patterns x 23 subjects through the runner against an independently computed table and against the regexp package called directly",
				"all":    "builtins fetched by name through the runner; strings of 0..S symbolic bytes (transform: ASCII), one symbolic pad byte, symbolic 64-bit positions assumed in range as the statement says; oracles are definitional loops and the algebraic laws"},
			Outside:     []string{"regexp with a symbolic subject or pattern (cannot be encoded; a concrete pool is checked instead)", "lower/upper on symbolic non-ASCII text (concrete pool only)", "replace with an empty search string", "panics on out-of-range positions are C03's subject (the harness recovers and judges returned values only)"},
			Assumptions: append([]string{"strings.Index / bytealg primitives are modelled by naive loops per their documented contract"}, commonAssumptions...),
		},
		{
			ID: "C18", Title: "Numeric builtins and bit operators compute what their names say",
			Runs: []HarnessRun{
				{Harness: "VP_C18_trans", Quick: map[string]int{}, MustReach: []string{"C18/trans/done"}, PanicLabel: "C18/trans/no-panic", SampleEvery: 3},
				{Harness: "VP_C18_inverse", Quick: map[string]int{}, MustReach: []string{"C18/inverse/done"}, PanicLabel: "C18/inverse/no-panic", SampleEvery: 3},
				{Harness: "VP_C18_roundlarge", Quick: map[string]int{}, MustReach: []string{"C18/roundlarge/done"}, PanicLabel: "C18/roundlarge/no-panic", SampleEvery: 7},
				{Harness: "VP_C18_rounding", Quick: map[string]int{"CB": 1000, "E": 2, "H": 0}, Thorough: map[string]int{"CB": 1000000, "E": 4, "H": 0}, MustReach: []string{"C18/rounding/done"}, PanicLabel: "C18/rounding/no-panic"},
				{Harness: "VP_C18_rounding", Quick: map[string]int{"CB": 100, "E": 1, "H": 1}, Thorough: map[string]int{"CB": 1000, "E": 2, "H": 1}, MustReach: []string{"C18/rounding/done"}, PanicLabel: "C18/rounding/no-panic"},
				{Harness: "VP_C18_tostring", Quick: map[string]int{"CB": 32, "E": 24}, Thorough: map[string]int{"CB": 1000, "E": 24}, MustReach: []string{"C18/tostring/done"}, PanicLabel: "C18/tostring/no-panic"},
				{Harness: "VP_C18_minmax", Quick: map[string]int{"N": 3, "CB": 10}, Thorough: map[string]int{"N": 4, "CB": 10}, MustReach: []string{"C18/minmax/done"}, PanicLabel: "C18/minmax/no-panic"},
				{Harness: "VP_C18_conv", Quick: map[string]int{"CB": 1000, "E": 2}, Thorough: map[string]int{"CB": 100000, "E": 3}, MustReach: []string{"C18/conv/done"}, PanicLabel: "C18/conv/no-panic"},
				{Harness: "VP_C18_bits", Quick: map[string]int{"B": 6, "K": 2}, Thorough: map[string]int{"B": 10, "K": 2}, MustReach: []string{"C18/bits/done"}, PanicLabel: "C18/bits/no-panic"},
				{Harness: "VP_C18_bits", Quick: map[string]int{"B": 20, "K": 0}, Thorough: map[string]int{"B": 31, "K": 0}, MustReach: []string{"C18/bits/done"}, PanicLabel: "C18/bits/no-panic"},
				{Harness: "VP_C18_bigints", Quick: map[string]int{"LO": 0, "HI": 62}, MustReach: []string{"C18/bigints/done"}, PanicLabel: "C18/bigints/no-panic"},
			},
			Bounds: map[string]string{"roundlarge": "CONCRETE POOL: abs ceil floor round roundBank on 18 arguments of large magnitude x both signs (2.5e16, 1e16..1e30, 16..20-digit integers incl. 2^63-1 and 2^64-1, ties and near-ties whose integer part has 17-18 digits) against the definitions computed in 64-bit integers",
				"rounding": "abs ceil floor round roundBank on x = (-1)^s * c * 10^e, c < CB symbolic, e in -E..1 (library Quantize/RoundToInt executed symbolically)", "minmax": "lists of 1..N symbolic numbers", "conv": "toInt, toFloat (numbers and texts of 1..4 bytes over {0-9 . e - space x}), toString round trip (c < 1000), finite", "bits": "& | ^ ~ on integers |v| < 2^B vs two's complement", "bigints": "toInt(n) and n & n for one symbolic integer 1 <= |n| < 2^62",
				"rounding-history": "the same with another rounding builtin (none / round / roundBank) called earlier in the process",
				"tostring":         "toString(x) parsed back by toFloat for c < CB symbolic and every exponent in -E..E (both notations of the number printer)",
				"trans":            "CONCRETE POOL (not symbolic): 108 arguments of sqrt/exp/ln/log incl. exact squares, powers of ten, values near 1; results within one unit in the 15th significant digit of the 34-digit value computed independently (Python decimal)",
				"inverse":          "CONCRETE POOL (not symbolic): sqrt(x*x), sqrt(x)^2, exp(ln x), ln(exp x), log(x*x)-2log(x), ln(x*x)-2ln(x) through parser and runner for 15 arguments; 13-15 significant digits demanded (composed rounding)"},
			Outside:     []string{"sqrt exp ln log on symbolic arguments (iterative big-number algorithms: not encodable; concrete pools only)", "arguments with more digits than the bounds"},
			Assumptions: commonAssumptions,
		},
		{
			ID: "C19", Title: "Date builtins agree with the proleptic Gregorian calendar and preserve instants",
			Runs: []HarnessRun{
				{Harness: "VP_C19_pool", Quick: map[string]int{}, MustReach: []string{"C19/pool/done"}, PanicLabel: "C19/pool/no-panic", SampleEvery: 1},
				{Harness: "VP_C19_date", Quick: map[string]int{}, MustReach: []string{"C19/date/done"}, PanicLabel: "C19/date/no-panic", SampleEvery: 1},
				{Harness: "VP_C19_fields", Quick: map[string]int{}, MustReach: []string{"C19/fields/done"}, PanicLabel: "C19/fields/no-panic", SampleEvery: 1},
				{Harness: "VP_C19_zone", Quick: map[string]int{}, MustReach: []string{"C19/zone/done"}, PanicLabel: "C19/zone/no-panic", SampleEvery: 1},
			},
			Bounds: map[string]string{"pool": "CONCRETE POOL (not symbolic, real time package): 30 formulas through parser and runner at calendar boundaries (year 1 and the zero instant as an ordinary value, leap days of 1900/2000/2023/2024, month 0 / 13 / 14 and day 0 / 30 / 32 carry, week days, day shifts of 1 and 200000 days in milliseconds) with hand-written expectations",
				"all": "package time is environment: Date, AddDate, Year..Weekday, Format, Now are uninterpreted functions of (instant, zone) / a non-decreasing symbolic clock; the solver decides, for all y in 1..9999, m in -50..60, d in -800..800, all shift triples, all instants from year 68 to 9892, three zones, the *wiring* of the 14 date builtins to those primitives (argument order, 1-based month, weekday, milliseconds, In vs UTC, local midnight, clock bracket); native replays of sampled models compare against the real time package and an independent days-from-civil computation"},
			Outside:     []string{"that Go's time package implements the proleptic Gregorian calendar and the zone rules (trusted; calendar arithmetic on symbolic years times out in z3, z3 5.1 and cvc5)", "daylight-saving zones in the engine (no zone database there); seven civil shifts across DST transitions are decided by the native replay only (C19/pool/dst-civil-shift, skipped when the replay environment has no zone database)"},
			Assumptions: commonAssumptions,
		},
		{
			ID: "C20", Title: "A runner behaves like a plain map of data plus a separate key-value store",
			Runs: []HarnessRun{
				{Harness: "VP_C20_runner", Quick: map[string]int{"N": 3}, Thorough: map[string]int{"N": 3}, MustReach: []string{"C20/runner/done"}, PanicLabel: "C20/runner/no-panic"},
			},
			Bounds:      map[string]string{"runner": "every sequence of N operations over {SetThis(nil | {a:v} | {$x:7} | {$x:'1',a:1} | a map object the caller kept and hands in again), SetThisValue(a|$x, v), evaluate one of 16 formulas reading/assigning $x, $y, $z and a (incl. a fractional local passed to round, and an assignment whose right-hand side fails), Set(k,v), Get(k)} from both initial states, against the two-map model (map objects have identity: locals live in the caller's map); quick N=3, thorough N=4"},
			Outside:     []string{"longer histories"},
			Assumptions: commonAssumptions,
		},
		{
			ID: "C11", Title: "Host functions are called exactly as declared, or not at all",
			Runs: []HarnessRun{
				{Harness: "VP_C11_history", Quick: map[string]int{}, MustReach: []string{"C11/history/done"}, PanicLabel: "C11/history/no-panic", SampleEvery: 1},
				{Harness: "VP_C11_results", Quick: map[string]int{}, MustReach: []string{"C11/results/value", "C11/results/error"}, PanicLabel: "C11/results/no-panic"},
				{Harness: "VP_C11_nested", Quick: map[string]int{}, MustReach: []string{"C11/nested/done"}, PanicLabel: "C11/nested/no-panic", SampleEvery: 3},
				{Harness: "VP_C11_hostcalls", Quick: map[string]int{"A": 2}, Thorough: map[string]int{"A": 3}, MustReach: []string{"C11/hostcalls/value", "C11/hostcalls/error"}, PanicLabel: "C11/hostcalls/no-panic"},
				{Harness: "VP_C11_truncpool", Quick: map[string]int{}, MustReach: []string{"C11/truncpool/done"}, PanicLabel: "C11/truncpool/no-panic", SampleEvery: 5},
				{Harness: "VP_C11_trunc", Quick: map[string]int{"B": 16, "E": 0}, Thorough: map[string]int{"B": 8, "E": 1}, MustReach: []string{"C11/trunc/done"}, PanicLabel: "C11/trunc/no-panic"},
			},
			Bounds: map[string]string{"tiers": "the thorough tier of this check runs the quick-tier parameters (larger bounds were not validated on the unchanged tree within the session and are therefore not registered)", "trunc": "x = (-1)^s * c * 10^e with c < 2^B symbolic and e in -E..E passed to int / int64 / float64 parameters: the received integer is x truncated toward zero, the received float is exact for integers and brackets the value otherwise (the bridge's float64 division is decided by the solver's floating-point theory); quick B=16,E=0 (integers: conversions only); thorough B=8,E=1 (with the float64 division by a power of ten)",
				"truncpool": "CONCRETE POOL: 23 many-digit numbers (34-digit quotients such as 20/3, long fractions, halves, negative values) through parser and runner to int / int64 / int32 / []int64 parameters: the function receives the value truncated toward zero (each value is far enough from an integer that the float64 bridge cannot carry it across)",
				"nested":    "7 formulas whose arguments are themselves calls (first / middle / last position, two levels, variadic) on a fresh runner, after an earlier evaluation by the same runner, and after an earlier call in the same formula: the invocation log equals the left-to-right log with each call's own arguments",
				"hostcalls": "16 recording host functions (string, int, int8, float64, bool, interface{}, *decimal.Big, time.Time, []string, []int, []int32, []byte, map[string]int parameters, variadic tails, optional leading context) x argument lists of length 0..A over {null, symbolic bool, numbers from a pool incl. fractions and negatives, symbolic strings, string array, number array, map, time}, with and without spread; the oracle predicts the exact invocation log or an error", "results": "returned error (symbolic) aborts with an error naming the function; returned int/int32/int64/float32/float64 become numbers"},
			Outside:     []string{"the text produced when a composite value is converted to a string parameter", "numbers beyond the pool and the C11/trunc bounds (the number-to-int bridge is floating point)", "host functions with other parameter kinds"},
			Assumptions: commonAssumptions,
		},
		{
			ID: "C12", Title: "Numeric literals denote exactly the decimal number written",
			Runs: []HarnessRun{
				{Harness: "VP_C12_pairs", Quick: map[string]int{}, MustReach: []string{"C12/pairs/done"}, PanicLabel: "C12/pairs/no-panic", SampleEvery: 1},
				{Harness: "VP_C12_long", Quick: map[string]int{}, MustReach: []string{"C12/long/done"}, PanicLabel: "C12/long/no-panic", SampleEvery: 1},
				{Harness: "VP_C12_literals", Quick: map[string]int{"L": 6, "ALPHA": 1, "CTX": 3}, Thorough: map[string]int{"L": 7, "ALPHA": 1, "CTX": 3}, MustReach: []string{"C12/literals/wellformed", "C12/literals/malformed"}, PanicLabel: "C12/literals/no-panic"},
				{Harness: "VP_C12_literals", Quick: map[string]int{"L": 4, "ALPHA": 0, "CTX": 6}, Thorough: map[string]int{"L": 6, "ALPHA": 0, "CTX": 6}, MustReach: []string{"C12/literals/wellformed", "C12/literals/malformed"}, PanicLabel: "C12/literals/no-panic"},
			},
			Bounds:      map[string]string{"literals": "every text of 1..L bytes over the alphabet {0-9 . e E + - _ a} that is exactly one literal candidate per the reference recogniser, in three syntactic positions (bare, [lit], 1?(lit):0); digits stay symbolic inside the class; quick L=4, thorough L=6"},
			Outside:     []string{"literals longer than L bytes (40-digit parts)", "identifier characters other than 'a' directly after a literal (the class test IsIdentifierStart is C14's subject)"},
			Assumptions: commonAssumptions,
		},
		{
			ID: "C13", Title: "String literals round-trip every text through quoting and escaping",
			Runs: []HarnessRun{
				{Harness: "VP_C13_roundtrip", Quick: map[string]int{"L": 2}, Thorough: map[string]int{"L": 3}, MustReach: []string{"C13/roundtrip/done"}, PanicLabel: "C13/roundtrip/no-panic"},
				{Harness: "VP_C13_neighbours", Quick: map[string]int{"L": 2}, Thorough: map[string]int{"L": 2}, MustReach: []string{"C13/neighbours/done"}, PanicLabel: "C13/neighbours/no-panic"},
				{Harness: "VP_C13_open", Quick: map[string]int{"L": 2}, Thorough: map[string]int{"L": 3}, MustReach: []string{"C13/open/done"}, PanicLabel: "C13/open/no-panic"},
			},
			Bounds: map[string]string{"neighbours": "the same literal between two other literals with escapes in one array formula: every literal keeps its own text",
				"roundtrip": "every text of 0..L symbolic bytes (incl. invalid UTF-8), both quote styles, every choice among the equivalent escape forms (verbatim, named, \\xHH, \\uHHHH, upper/lower hex) per character; quick L=2, thorough L=3", "open": "bodies of 0..L bytes without the delimiter/backslash, left open at end of input or at each of the five line-break code points"},
			Outside:     []string{"texts longer than L bytes"},
			Assumptions: commonAssumptions,
		},
		{
			ID: "C14", Title: "Tokens tile the input; longest match; spacing is insignificant",
			Runs: []HarnessRun{
				{Harness: "VP_C14_tables", Quick: map[string]int{}, MustReach: []string{"C14/tables/done"}},
				{Harness: "VP_C14_classes", Quick: map[string]int{}, MustReach: []string{"C14/classes/done"}},
				{Harness: "VP_C14_identparts", Quick: map[string]int{}, MustReach: []string{"C14/identparts/done"}, PanicLabel: "C14/identparts/no-panic", SampleEvery: 23},
				{Harness: "VP_C14_tokens", Quick: map[string]int{"L": 2, "OPS": 0}, Thorough: map[string]int{"L": 3, "OPS": 0}, MustReach: []string{"C14/tokens/complete", "C14/tokens/cut"}, PanicLabel: "C14/tokens/no-panic"},
				{Harness: "VP_C14_tokens", Quick: map[string]int{"L": 4, "OPS": 2}, Thorough: map[string]int{"L": 5, "OPS": 2}, MustReach: []string{"C14/tokens/complete"}, PanicLabel: "C14/tokens/no-panic"},
				{Harness: "VP_C14_tokens", Quick: map[string]int{"L": 4, "OPS": 1}, Thorough: map[string]int{"L": 5, "OPS": 1}, MustReach: []string{"C14/tokens/complete"}, PanicLabel: "C14/tokens/no-panic"},
				{Harness: "VP_C14_spacing", Quick: map[string]int{"L": 3}, Thorough: map[string]int{"L": 3}, MustReach: []string{"C14/spacing/accepted", "C14/spacing/rejected"}, PanicLabel: "C14/spacing/no-panic"},
				{Harness: "VP_C14_scanstep", Quick: map[string]int{"L": 4, "ESC": 0}, Thorough: map[string]int{"L": 4, "ESC": 0}, MustReach: []string{"C14/scanstep/done"}, PanicLabel: "C14/scanstep/no-panic"},
			},
			Bounds: map[string]string{"tokens": "the real scanner's token sequence (kind, start, end, line-break flag) equals an independent longest-match reference tokenizer's (operator table longest-first, keywords as whole words, identifier classes, ES whitespace/line-break separators) on every text of L symbolic bytes (quick L=2, thorough L=3) and on every text of L bytes over the operator-dense alphabet {= ! . & | ? < > + a 1 space newline 0xC2 0xA0 (NBSP)} (quick L=4, thorough L=5); comparison stops where the statement leaves token extents open (malformed numbers, hex, unterminated strings, escapes)",
				"spacing": "byte level: every text of L bytes over {a 1 . ( ) , + ! ? : space}, a separator from {space, tab, LF, CR LF, U+2028, NBSP, space LF space} inserted before any one token (also before the end): an accepted text stays accepted with the same tree, a rejected text stays rejected; line breaks before . !. ( excepted; L=3 in both tiers",
				"identparts": "CONCRETE POOL: identifier start (5 forms) + one of 23 code points (combining marks, non-ASCII digits, ZWNJ/ZWJ, connector punctuation, letters, separators, symbols, an astral digit) + tail (4 forms), 3..9 bytes: scanner tokens equal the reference tokenizer's; an identifier-part character continues the identifier",
				"classes": "every code point 0..0x10FFFF (one symbolic 32-bit rune)", "scanstep": "one Scan() from every start position of every text of L symbolic bytes (inductive step: tiling for all texts of that size follows by induction over calls); L=4 in both tiers (a malformed \\x escape needs four bytes)"},
			Outside:     []string{"contents of the ES5 identifier tables (no independent oracle)", "texts longer than the bound"},
			Assumptions: commonAssumptions,
		},
		{
			ID: "C15", Title: "Source ranges nest and re-parse; errors point at the right line and column",
			Runs: []HarnessRun{
				{Harness: "VP_C15_errpool", Quick: map[string]int{}, MustReach: []string{"C15/errpool/done"}, PanicLabel: "C15/errpool/no-panic", SampleEvery: 1},
				{Harness: "VP_C15_linecol", Quick: map[string]int{"L": 4}, Thorough: map[string]int{"L": 5}, MustReach: []string{"C15/linecol/done"}},
				{Harness: "VP_C15_binsearch", Quick: map[string]int{"N": 5}, Thorough: map[string]int{"N": 7}, MustReach: []string{"C15/binsearch/done"}},
				{Harness: "VP_C15_tokranges", Quick: map[string]int{"K": 3}, Thorough: map[string]int{"K": 4}, MustReach: []string{"C15/tokranges/accepted"}, PanicLabel: "C15/tokranges/no-panic"},
				{Harness: "VP_C15_ranges", Quick: map[string]int{"L": 3}, Thorough: map[string]int{"L": 3}, MustReach: []string{"C15/ranges/accepted", "C15/errtext/diagnostic"}, PanicLabel: "C15/ranges/no-panic"},
			},
			Bounds: map[string]string{"tiers": "thorough: linecol L=5, binsearch N=7, tokranges K=4 (validated on the unchanged tree); byte-level ranges stay at L=3 in both tiers (L=4 did not finish inside its budget)", "tokranges": "token level (stub scanner, unit-width tokens): for every accepted sequence of K symbolic tokens with symbolic line-break flags, leaves and member names cover exactly their token and children nest in source order (natively: byte ranges of the rendered text, names cover their text); quick K=3, thorough K=4",
				"ranges": "real parse of every text of L symbolic bytes: node ranges within the text, children nested in source order, text[pos:end] of every expression node re-parsed and compared; for rejected texts the error string equals pos(l, c) error(code) msg with (l,c) from the direct count at Diagnostics[0].Start; quick L=3, thorough L=4", "linecol": "all texts of exactly L bytes (every byte symbolic) x every offset 0..L; quick L=4, thorough L=5", "binsearch": "strictly increasing arrays of 0..N symbolic 64-bit ints; quick N=5, thorough N=7"},
			Outside:     []string{"texts longer than the bound"},
			Assumptions: commonAssumptions,
		},
	}
}
