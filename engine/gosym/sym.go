package interp

// Symbolic scalars (sym) and strings with symbolic bytes (sstr), and the
// lifting of Go's operators to SMT terms.

import (
	"fmt"
	"go/token"
	"go/types"
	"math"
)

// sym is a symbolic scalar: Bool (w=0), two's complement bit-vector of the Go
// type's width, or Float64.  Signedness is taken from static types.
type sym struct{ t *Term }

// sstr is a string of concrete length whose bytes may be symbolic.
type sstr struct{ b []value } // each element: byte or sym(w=8)

func isSym(v value) bool  { _, ok := v.(sym); return ok }
func isSstr(v value) bool { _, ok := v.(sstr); return ok }

func basicInfo(t types.Type) (w int, signed bool, ok bool) {
	if t == nil {
		return 0, false, false
	}
	b, isb := t.Underlying().(*types.Basic)
	if !isb {
		return 0, false, false
	}
	switch b.Kind() {
	case types.Bool, types.UntypedBool:
		return 0, false, true
	case types.Int, types.Int64, types.UntypedInt:
		return 64, true, true
	case types.Int8:
		return 8, true, true
	case types.Int16:
		return 16, true, true
	case types.Int32, types.UntypedRune:
		return 32, true, true
	case types.Uint, types.Uint64, types.Uintptr:
		return 64, false, true
	case types.Uint8:
		return 8, false, true
	case types.Uint16:
		return 16, false, true
	case types.Uint32:
		return 32, false, true
	case types.Float64, types.UntypedFloat:
		return wFloat, true, true
	}
	return 0, false, false
}

// toTerm lifts a concrete scalar (or sym) to a term.
func toTerm(v value) *Term {
	switch x := v.(type) {
	case sym:
		return x.t
	case bool:
		return mkBool(x)
	case int:
		return mkConst(uint64(x), 64)
	case int64:
		return mkConst(uint64(x), 64)
	case int32:
		return mkConst(uint64(x), 32)
	case int16:
		return mkConst(uint64(x), 16)
	case int8:
		return mkConst(uint64(x), 8)
	case uint:
		return mkConst(uint64(x), 64)
	case uint64:
		return mkConst(x, 64)
	case uintptr:
		return mkConst(uint64(x), 64)
	case uint32:
		return mkConst(uint64(x), 32)
	case uint16:
		return mkConst(uint64(x), 16)
	case uint8:
		return mkConst(uint64(x), 8)
	case float64:
		return mkFConst(x)
	}
	panic(engineBug{fmt.Sprintf("toTerm: unsupported %T", v)})
}

// isSigned reports the signedness of a concrete integer value's dynamic type.
func dynSigned(v value) bool {
	switch v.(type) {
	case int, int8, int16, int32, int64:
		return true
	}
	return false
}

// mkValue boxes a term as an interpreter value of static type typ: constants
// become ordinary concrete values (the interpreter dispatches on dynamic Go
// types), anything else a sym.
func mkValue(t *Term, typ types.Type) value {
	if !t.isConst() {
		return sym{t}
	}
	b, ok := typ.Underlying().(*types.Basic)
	if !ok {
		panic(engineBug{"mkValue: non-basic type " + typ.String()})
	}
	v := t.val
	switch b.Kind() {
	case types.Bool, types.UntypedBool:
		return v != 0
	case types.Int, types.UntypedInt:
		return int(sext(v, 64))
	case types.Int64:
		return int64(v)
	case types.Int8:
		return int8(v)
	case types.Int16:
		return int16(v)
	case types.Int32, types.UntypedRune:
		return int32(v)
	case types.Uint:
		return uint(v)
	case types.Uint64:
		return v
	case types.Uintptr:
		return uintptr(v)
	case types.Uint8:
		return uint8(v)
	case types.Uint16:
		return uint16(v)
	case types.Uint32:
		return uint32(v)
	case types.Float64, types.UntypedFloat:
		return math.Float64frombits(v)
	}
	panic(engineBug{"mkValue: unsupported kind " + typ.String()})
}

var (
	tInt     = types.Typ[types.Int]
	tInt64   = types.Typ[types.Int64]
	tUint64  = types.Typ[types.Uint64]
	tUint8   = types.Typ[types.Uint8]
	tInt32   = types.Typ[types.Int32]
	tBool    = types.Typ[types.Bool]
	tFloat64 = types.Typ[types.Float64]
	tString  = types.Typ[types.String]
)

// symBinop lifts a Go binary operator; t is the static type of the operands
// (of X for shifts).  Division by zero and negative shift counts are handled
// by the caller (they need to fork).
func symBinop(op token.Token, t types.Type, xv, yv value) value {
	x, y := toTerm(xv), toTerm(yv)
	w, signed, ok := basicInfo(t)
	if !ok {
		// fall back on term widths (e.g. min/max builtins pass nil)
		w, signed = x.w, true
	}
	if x.w == wFloat {
		switch op {
		case token.ADD:
			return mkValue(mkFBin("fp.add", x, y), tFloat64)
		case token.SUB:
			return mkValue(mkFBin("fp.sub", x, y), tFloat64)
		case token.MUL:
			return mkValue(mkFBin("fp.mul", x, y), tFloat64)
		case token.QUO:
			return mkValue(mkFBin("fp.div", x, y), tFloat64)
		case token.EQL:
			return mkValue(mkFCmp("fp.eq", x, y), tBool)
		case token.NEQ:
			return mkValue(mkNot(mkFCmp("fp.eq", x, y)), tBool)
		case token.LSS:
			return mkValue(mkFCmp("fp.lt", x, y), tBool)
		case token.LEQ:
			return mkValue(mkFCmp("fp.leq", x, y), tBool)
		case token.GTR:
			return mkValue(mkFCmp("fp.gt", x, y), tBool)
		case token.GEQ:
			return mkValue(mkFCmp("fp.geq", x, y), tBool)
		}
		panic(inconclusive{"float operator " + op.String()})
	}
	if x.w == 0 {
		switch op {
		case token.EQL:
			return mkValue(mkEq(x, y), tBool)
		case token.NEQ:
			return mkValue(mkNot(mkEq(x, y)), tBool)
		case token.AND, token.LAND:
			return mkValue(mkAnd(x, y), tBool)
		case token.OR, token.LOR:
			return mkValue(mkOr(x, y), tBool)
		}
		panic(engineBug{"symBinop bool " + op.String()})
	}
	_ = w
	switch op {
	case token.ADD:
		return mkValue(mkBin("bvadd", x, y), t)
	case token.SUB:
		return mkValue(mkBin("bvsub", x, y), t)
	case token.MUL:
		return mkValue(mkBin("bvmul", x, y), t)
	case token.AND:
		return mkValue(mkBin("bvand", x, y), t)
	case token.OR:
		return mkValue(mkBin("bvor", x, y), t)
	case token.XOR:
		return mkValue(mkBin("bvxor", x, y), t)
	case token.AND_NOT:
		return mkValue(mkBin("bvand", x, mkUn("bvnot", y)), t)
	case token.QUO:
		if signed {
			return mkValue(mkBin("bvsdiv", x, y), t)
		}
		return mkValue(mkBin("bvudiv", x, y), t)
	case token.REM:
		if signed {
			return mkValue(mkBin("bvsrem", x, y), t)
		}
		return mkValue(mkBin("bvurem", x, y), t)
	case token.SHL, token.SHR:
		o := "bvshl"
		if op == token.SHR {
			o = "bvlshr"
			if signed {
				o = "bvashr"
			}
		}
		switch {
		case y.w < x.w:
			return mkValue(mkBin(o, x, mkExtend(false, x.w-y.w, y)), t)
		case y.w == x.w:
			return mkValue(mkBin(o, x, y), t)
		default:
			// wide count: saturate
			big := mkCmp("bvuge", y, mkConst(uint64(x.w), y.w))
			sat := mkConst(uint64(x.w), x.w) // shifting by >= w gives 0 / sign fill in SMT too
			cnt := mkIte(big, sat, mkExtract(x.w-1, 0, y))
			return mkValue(mkBin(o, x, cnt), t)
		}
	case token.EQL:
		return mkValue(mkEq(x, y), tBool)
	case token.NEQ:
		return mkValue(mkNot(mkEq(x, y)), tBool)
	case token.LSS, token.LEQ, token.GTR, token.GEQ:
		m := map[token.Token][2]string{token.LSS: {"bvult", "bvslt"}, token.LEQ: {"bvule", "bvsle"}, token.GTR: {"bvugt", "bvsgt"}, token.GEQ: {"bvuge", "bvsge"}}[op]
		o := m[0]
		if signed {
			o = m[1]
		}
		return mkValue(mkCmp(o, x, y), tBool)
	}
	panic(engineBug{"symBinop: " + op.String()})
}

func symUnop(op token.Token, t types.Type, x sym) value {
	switch op {
	case token.SUB:
		if x.t.w == wFloat {
			return mkValue(mkRaw("fp.neg", wFloat, x.t), tFloat64)
		}
		return mkValue(mkUn("bvneg", x.t), t)
	case token.NOT:
		return mkValue(mkNot(x.t), tBool)
	case token.XOR:
		return mkValue(mkUn("bvnot", x.t), t)
	}
	panic(engineBug{"symUnop " + op.String()})
}

// symConv converts symbolic scalar x of static type tsrc to tdst.
func symConv(tdst, tsrc types.Type, x sym) value {
	w, _, ok := basicInfo(tdst)
	if !ok {
		panic(inconclusive{"conversion of a symbolic value to " + tdst.String()})
	}
	_, ssigned, sok := basicInfo(tsrc)
	if !sok {
		ssigned = true
	}
	switch {
	case x.t.w == wFloat && w == wFloat:
		return x
	case x.t.w == wFloat: // float64 -> integer (amd64 semantics: CVTTSD2SQ, then truncate)
		f := x.t
		lo := mkFConst(-9223372036854775808.0)
		hi := mkFConst(9223372036854775808.0)
		inr := mkAnd(mkFCmp("fp.geq", f, lo), mkFCmp("fp.lt", f, hi))
		conv := mkRaw("fp.to_sbv", 64, f)
		r := mkIte(inr, conv, mkConst(1<<63, 64))
		return mkValue(mkResize(r, w, true), tdst)
	case w == wFloat: // integer -> float64
		if ssigned {
			return mkValue(mkRaw("to_fp_s", wFloat, x.t), tFloat64)
		}
		return mkValue(mkRaw("to_fp_u", wFloat, x.t), tFloat64)
	case w == 0 || x.t.w == 0:
		panic(engineBug{"symConv: bool conversion"})
	}
	return mkValue(mkResize(x.t, w, ssigned), tdst)
}

// ---- strings with symbolic bytes ----

func toSstr(v value) sstr {
	switch x := v.(type) {
	case sstr:
		return x
	case string:
		b := make([]value, len(x))
		for i := 0; i < len(x); i++ {
			b[i] = x[i]
		}
		return sstr{b}
	}
	panic(engineBug{fmt.Sprintf("toSstr %T", v)})
}

// norm collapses an all-concrete sstr to a Go string.
func (s sstr) norm() value {
	for _, c := range s.b {
		if _, ok := c.(byte); !ok {
			return s
		}
	}
	bs := make([]byte, len(s.b))
	for i, c := range s.b {
		bs[i] = c.(byte)
	}
	return string(bs)
}

func bytesToStringValue(b []value) value {
	return sstr{append([]value(nil), b...)}.norm()
}

func sstrEqTerm(a, b sstr) *Term {
	if len(a.b) != len(b.b) {
		return tFalse
	}
	var cs []*Term
	for i := range a.b {
		cs = append(cs, mkEq(toTerm(a.b[i]), toTerm(b.b[i])))
	}
	return mkAnd(cs...)
}

// sstrLessTerm: lexicographic a < b (orEq: a <= b).
func sstrLessTerm(a, b sstr, orEq bool) *Term {
	n := len(a.b)
	if len(b.b) < n {
		n = len(b.b)
	}
	var tail *Term
	if orEq {
		tail = mkBool(len(a.b) <= len(b.b))
	} else {
		tail = mkBool(len(a.b) < len(b.b))
	}
	for i := n - 1; i >= 0; i-- {
		x, y := toTerm(a.b[i]), toTerm(b.b[i])
		tail = mkIte(mkCmp("bvult", x, y), tTrue, mkIte(mkEq(x, y), tail, tFalse))
	}
	return tail
}

func sstrBinop(op token.Token, x, y value) value {
	a, b := toSstr(x), toSstr(y)
	switch op {
	case token.ADD:
		return sstr{append(append([]value(nil), a.b...), b.b...)}.norm()
	case token.EQL:
		return mkValue(sstrEqTerm(a, b), tBool)
	case token.NEQ:
		return mkValue(mkNot(sstrEqTerm(a, b)), tBool)
	case token.LSS:
		return mkValue(sstrLessTerm(a, b, false), tBool)
	case token.LEQ:
		return mkValue(sstrLessTerm(a, b, true), tBool)
	case token.GTR:
		return mkValue(sstrLessTerm(b, a, false), tBool)
	case token.GEQ:
		return mkValue(sstrLessTerm(b, a, true), tBool)
	}
	panic(engineBug{"sstrBinop " + op.String()})
}

// containsSym reports whether v contains a symbolic part (shallow through
// aggregates, not through pointers).
func containsSym(v value) bool {
	switch x := v.(type) {
	case sym, sstr:
		return true
	case iface:
		return containsSym(x.v)
	case structure:
		for _, e := range x {
			if containsSym(e) {
				return true
			}
		}
	case array:
		for _, e := range x {
			if containsSym(e) {
				return true
			}
		}
	}
	return false
}

// equalsSym is equals() for operands that may contain symbolic parts; it
// returns a Bool term.
func equalsSym(t types.Type, x, y value) *Term {
	switch xv := x.(type) {
	case sym:
		return toTerm(symBinop(token.EQL, t, x, y))
	case sstr:
		return sstrEqTerm(xv, toSstr(y))
	case string:
		if ys, ok := y.(sstr); ok {
			return sstrEqTerm(toSstr(xv), ys)
		}
	case iface:
		yv := y.(iface)
		if !sameType(xv.t, yv.t) {
			return tFalse
		}
		if xv.t == nil {
			return tTrue
		}
		return equalsSym(xv.t, xv.v, yv.v)
	case structure:
		yv := y.(structure)
		st := t.Underlying().(*types.Struct)
		var cs []*Term
		for i := 0; i < st.NumFields(); i++ {
			if f := st.Field(i); !f.Anonymous() || true {
				cs = append(cs, equalsSym(f.Type(), xv[i], yv[i]))
			}
		}
		return mkAnd(cs...)
	case array:
		yv := y.(array)
		et := t.Underlying().(*types.Array).Elem()
		var cs []*Term
		for i := range xv {
			cs = append(cs, equalsSym(et, xv[i], yv[i]))
		}
		return mkAnd(cs...)
	}
	if isSym(y) {
		return toTerm(symBinop(token.EQL, t, x, y))
	}
	return mkBool(equals(t, x, y))
}
