package interp

// Write monitor for the frame-condition checks (C07/C08/C09): the harness
// marks a set of heap cells as "frozen" (everything reachable from given
// roots); any later Store / map update / in-place append / copy / delete
// whose target is frozen is recorded.

import (
	"fmt"
	"go/types"
	"sort"

	"golang.org/x/tools/go/ssa"
)

type writeMonitor struct {
	i        *interpreter
	cells    map[*value]string      // frozen cells -> description of the root
	maps     map[interface{}]string // frozen maps (map[value]value pointer identity via reflect) -> root
	hmaps    map[*hashmap]string
	slices   map[*value]string     // first element address of frozen backing arrays
	chans    map[chan value]string // frozen channels (a send or receive changes their shared buffer)
	recs     map[string]int
	enabled  bool
	allowKey func(root string, key value) bool
}

func newWriteMonitor(i *interpreter) *writeMonitor {
	return &writeMonitor{i: i, cells: map[*value]string{}, maps: map[interface{}]string{}, hmaps: map[*hashmap]string{}, slices: map[*value]string{}, chans: map[chan value]string{}, recs: map[string]int{}}
}

func (m *writeMonitor) records() []string {
	var out []string
	for k := range m.recs {
		out = append(out, k)
	}
	sort.Strings(out)
	return out
}

func mapID(v map[value]value) interface{} {
	return fmt.Sprintf("%p", v)
}

// freeze marks everything reachable from v.
func (m *writeMonitor) freeze(v value, root string, seen map[interface{}]bool) {
	switch x := v.(type) {
	case *value:
		if x == nil || seen[x] {
			return
		}
		seen[x] = true
		m.cells[x] = root
		m.freezeInner(x, root, seen)
	case iface:
		m.freeze(x.v, root, seen)
	case structure:
		for k := range x {
			m.cells[&x[k]] = root
			m.freeze(x[k], root, seen)
		}
	case array:
		for k := range x {
			m.cells[&x[k]] = root
			m.freeze(x[k], root, seen)
		}
	case []value:
		full := x[:cap(x)]
		for k := range full {
			if seen[&full[k]] {
				return
			}
			seen[&full[k]] = true
			m.cells[&full[k]] = root
			m.freeze(full[k], root, seen)
		}
	case map[value]value:
		if x == nil {
			return
		}
		id := mapID(x)
		if seen[id] {
			return
		}
		seen[id] = true
		m.maps[id] = root
		for _, k := range sortedKeys(x) {
			m.freeze(k, root, seen)
			m.freeze(x[k], root, seen)
		}
	case *hashmap:
		if x == nil || seen[x] {
			return
		}
		seen[x] = true
		m.hmaps[x] = root
		for _, e := range x.sortedEntries() {
			m.freeze(e.key, root, seen)
			m.freeze(e.value, root, seen)
		}
	case chan value:
		if x != nil {
			m.chans[x] = root
		}
	case *closure:
		// a host function's own captured state is not caller data
	case tuple:
		for _, e := range x {
			m.freeze(e, root, seen)
		}
	}
}

// freezeInner marks the cells inside the aggregate stored at addr.
func (m *writeMonitor) freezeInner(addr *value, root string, seen map[interface{}]bool) {
	switch x := (*addr).(type) {
	case structure:
		for k := range x {
			m.cells[&x[k]] = root
			m.freezeInner(&x[k], root, seen)
		}
	case array:
		for k := range x {
			m.cells[&x[k]] = root
			m.freezeInner(&x[k], root, seen)
		}
	default:
		m.freeze(*addr, root, seen)
	}
}

// noteChan records a send to / receive from a frozen channel (both change its buffer).
func (m *writeMonitor) noteChan(fr *frame, ch value, what string) {
	if !m.enabled {
		return
	}
	c, ok := ch.(chan value)
	if !ok || c == nil {
		return
	}
	if root, ok := m.chans[c]; ok {
		m.recs[fmt.Sprintf("%s on frozen channel of %s in %s", what, root, fr.fn)]++
	}
}

func (m *writeMonitor) noteStore(fr *frame, addr *value, instr *ssa.Store) {
	if !m.enabled {
		return
	}
	if root, ok := m.cells[addr]; ok {
		m.recs[fmt.Sprintf("store to frozen %s in %s (%s)", root, fr.fn, fr.i.prog.Fset.Position(instr.Pos()))]++
	}
}

func (m *writeMonitor) noteMapWrite(fr *frame, mv value, key value) {
	if !m.enabled {
		return
	}
	switch x := mv.(type) {
	case map[value]value:
		if root, ok := m.maps[mapID(x)]; ok {
			if m.allowKey != nil && m.allowKey(root, key) {
				return
			}
			m.recs[fmt.Sprintf("map write to frozen %s key %s in %s", root, toString(key), fr.fn)]++
		}
	case *hashmap:
		if root, ok := m.hmaps[x]; ok {
			m.recs[fmt.Sprintf("map write to frozen %s in %s", root, fr.fn)]++
		}
	}
}

var _ = types.Typ
