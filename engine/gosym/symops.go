package interp

// Frame-level helpers that need the current path (forking, concretisation).

import (
	"fmt"
	"go/token"
	"go/types"
	"runtime"
	"sort"
	"strings"

	"golang.org/x/tools/go/ssa"
)

// targetRuntimeError is a Go run-time panic of the *target* raised by the
// engine (as opposed to engine-internal errors).
type targetRuntimeError string

func mustDeref(t types.Type) types.Type {
	if p, ok := t.Underlying().(*types.Pointer); ok {
		return p.Elem()
	}
	panic(engineBug{"mustDeref: not a pointer: " + t.String()})
}

func fnName(fn *ssa.Function) string { return fn.String() }

var InitAllow = map[string]bool{}

func initAllowed(path string) bool { return InitAllow[path] }

// isHostBug: a host run-time error that can only stem from the engine itself.
func isHostBug(re runtime.Error) bool {
	_, ok := re.(*runtime.TypeAssertionError)
	return ok
}

func hostStack() string {
	buf := make([]byte, 1<<14)
	n := runtime.Stack(buf, false)
	lines := strings.Split(string(buf[:n]), "\n")
	var keep []string
	for _, l := range lines {
		if strings.Contains(l, "gosym") && strings.Contains(l, ".go:") {
			keep = append(keep, strings.TrimSpace(l))
			if len(keep) >= 16 {
				break
			}
		}
	}
	return " @ " + strings.Join(keep, " < ")
}

// conc returns a concrete int64 for an integer value, forking if symbolic.
func (fr *frame) conc(v value) int64 {
	if s, ok := v.(sym); ok {
		return fr.i.ps.concretize(s.t, true)
	}
	return asInt64(v)
}

func (fr *frame) concTyped(v value, t types.Type) int64 {
	if s, ok := v.(sym); ok {
		_, signed, _ := basicInfo(t)
		return fr.i.ps.concretize(s.t, signed)
	}
	return asInt64(v)
}

// concOpt evaluates an optional slice bound operand.
func (fr *frame) concOpt(k ssa.Value) value {
	if k == nil {
		return nil
	}
	v := fr.get(k)
	if s, ok := v.(sym); ok {
		_, signed, _ := basicInfo(k.Type())
		return int(fr.i.ps.concretize(s.t, signed))
	}
	return v
}

func (fr *frame) unopSym(instr *ssa.UnOp, x value) value {
	if sx, ok := x.(sym); ok && instr.Op != token.MUL && instr.Op != token.ARROW {
		return symUnop(instr.Op, instr.X.Type(), sx)
	}
	if sp, ok := x.(symPtr); ok && instr.Op == token.MUL {
		return sp.load(fr)
	}
	return unop(instr, x)
}

func (fr *frame) binopSym(instr *ssa.BinOp, x, y value) value {
	t := instr.X.Type()
	if isSym(x) || isSym(y) {
		switch instr.Op {
		case token.QUO, token.REM:
			if yt := toTerm(y); yt.w != wFloat {
				if fr.i.ps.branch(mkEq(yt, mkConst(0, yt.w))) {
					panic(targetRuntimeError("integer divide by zero"))
				}
			}
		case token.SHL, token.SHR:
			if sy, ok := y.(sym); ok {
				if _, signed, _ := basicInfo(instr.Y.Type()); signed {
					if fr.i.ps.branch(mkCmp("bvslt", sy.t, mkConst(0, sy.t.w))) {
						panic(targetRuntimeError("negative shift amount"))
					}
				}
			}
		}
		return symBinop(instr.Op, t, x, y)
	}
	if isSstr(x) || isSstr(y) {
		return sstrBinop(instr.Op, x, y)
	}
	if instr.Op == token.EQL || instr.Op == token.NEQ {
		if containsSym(x) || containsSym(y) {
			if _, isNilConst := isNilOperand(instr); !isNilConst {
				c := equalsSym(t, x, y)
				if instr.Op == token.NEQ {
					c = mkNot(c)
				}
				return mkValue(c, tBool)
			}
		}
	}
	return binop(instr.Op, t, x, y)
}

func isNilOperand(instr *ssa.BinOp) (int, bool) {
	if c, ok := instr.X.(*ssa.Const); ok && c.Value == nil && !isBasicType(c.Type()) {
		return 0, true
	}
	if c, ok := instr.Y.(*ssa.Const); ok && c.Value == nil && !isBasicType(c.Type()) {
		return 1, true
	}
	return 0, false
}

func isBasicType(t types.Type) bool { _, ok := t.Underlying().(*types.Basic); return ok }

func (fr *frame) convSym(tdst, tsrc types.Type, x value) value {
	switch xv := x.(type) {
	case sym:
		if b, ok := tdst.Underlying().(*types.Basic); ok && b.Kind() == types.String {
			// string(rune): UTF-8 encode a symbolic code point
			return encodeRuneSym(fr, xv, tsrc)
		}
		return symConv(tdst, tsrc, xv)
	case sstr:
		switch ut := tdst.Underlying().(type) {
		case *types.Basic:
			if ut.Kind() == types.String {
				return xv
			}
		case *types.Slice:
			if b, ok := ut.Elem().Underlying().(*types.Basic); ok {
				switch b.Kind() {
				case types.Byte:
					return append([]value(nil), xv.b...)
				case types.Rune:
					var out []value
					p := xv.b
					for len(p) > 0 {
						r, n := decodeRuneSym(fr, p)
						out = append(out, r)
						p = p[n:]
					}
					return out
				}
			}
		}
		unsupported("conversion of a symbolic string to %s", tdst)
	case []value:
		if b, ok := tdst.Underlying().(*types.Basic); ok && b.Kind() == types.String {
			et := tsrc.Underlying().(*types.Slice).Elem().Underlying().(*types.Basic).Kind()
			anySym := false
			for _, e := range xv {
				if isSym(e) {
					anySym = true
					break
				}
			}
			if anySym {
				if et == types.Byte {
					return sstr{append([]value(nil), xv...)}
				}
				// []rune -> string with symbolic runes
				var out []value
				for _, e := range xv {
					if se, ok := e.(sym); ok {
						out = append(out, toSstr(encodeRuneSym(fr, se, tInt32)).b...)
					} else {
						out = append(out, toSstr(string(e.(int32))).b...)
					}
				}
				return sstr{out}.norm()
			}
		}
	}
	return conv(tdst, tsrc, x)
}

// ---- symbolic indexing ----

// symPtr is the address of an element of a slice/array of scalars selected
// by a symbolic index.
type symPtr struct {
	elems []value
	idx   *Term // 64-bit
	et    types.Type
}

func idx64(si sym, t types.Type) *Term {
	_, signed, ok := basicInfo(t)
	if !ok {
		signed = true
	}
	return mkResize(si.t, 64, signed)
}

func (fr *frame) boundsCheck(idx *Term, n int) {
	inb := mkCmp("bvult", idx, mkConst(uint64(n), 64))
	if !fr.i.ps.branch(inb) {
		panic(targetRuntimeError(fmt.Sprintf("index out of range [symbolic] with length %d", n)))
	}
}

func (p symPtr) load(fr *frame) value {
	n := len(p.elems)
	fr.boundsCheck(p.idx, n)
	if n == 0 {
		panic(engineBug{"symPtr.load: empty after bounds check"})
	}
	// all elements sstr/aggregates are not supported here
	res := toTerm(p.elems[n-1])
	for i := n - 2; i >= 0; i-- {
		res = mkIte(mkEq(p.idx, mkConst(uint64(i), 64)), toTerm(p.elems[i]), res)
	}
	return mkValue(res, p.et)
}

// concIndex concretises a symbolic index within [0,n) by forking, raising the
// target's index-out-of-range panic on the out-of-bounds side.
func (fr *frame) concIndex(idx *Term, n int) int {
	fr.boundsCheck(idx, n)
	return int(fr.i.ps.concretize(idx, false))
}

func (fr *frame) indexAddrSym(instr *ssa.IndexAddr, x value, si sym) value {
	var elems []value
	var et types.Type
	switch xv := x.(type) {
	case []value:
		elems = xv
		et = instr.X.Type().Underlying().(*types.Slice).Elem()
	case *value:
		if xv == nil {
			panic(targetRuntimeError("invalid memory address or nil pointer dereference"))
		}
		elems = (*xv).(array)
		et = mustDeref(instr.X.Type()).Underlying().(*types.Array).Elem()
	default:
		panic(engineBug{fmt.Sprintf("unexpected x type in IndexAddr: %T", x)})
	}
	idx := idx64(si, instr.Index.Type())
	if _, _, ok := basicInfo(et); ok && len(elems) <= 4096 {
		// read-mostly scalar tables: defer the choice (ite chain on load)
		onlyLoads := true
		for _, r := range *instr.Referrers() {
			if u, ok := r.(*ssa.UnOp); !ok || u.Op != token.MUL {
				onlyLoads = false
				break
			}
		}
		if onlyLoads {
			return symPtr{elems, idx, et}
		}
	}
	k := fr.concIndex(idx, len(elems))
	return &elems[k]
}

func (fr *frame) indexSym(instr *ssa.Index, x value, si sym) value {
	idx := idx64(si, instr.Index.Type())
	switch xv := x.(type) {
	case array:
		et := instr.X.Type().Underlying().(*types.Array).Elem()
		if _, _, ok := basicInfo(et); ok {
			return symPtr{xv, idx, et}.load(fr)
		}
		return xv[fr.concIndex(idx, len(xv))]
	case string:
		return symPtr{toSstr(xv).b, idx, tUint8}.load(fr)
	case sstr:
		return symPtr{xv.b, idx, tUint8}.load(fr)
	}
	panic(engineBug{fmt.Sprintf("unexpected x type in Index: %T", x)})
}

func (fr *frame) storeInstr(instr *ssa.Store) {
	addr := fr.get(instr.Addr)
	if sp, ok := addr.(symPtr); ok {
		k := fr.concIndex(sp.idx, len(sp.elems))
		addr = &sp.elems[k]
	}
	a := addr.(*value)
	if m := fr.i.ps; m != nil && m.monitor != nil {
		m.monitor.noteStore(fr, a, instr)
	}
	store(mustDeref(instr.Addr.Type()), a, fr.get(instr.Val))
}

// ---- maps ----

// sortedKeys returns the keys of a builtin-keyed map in a deterministic order.
func sortedKeys(m map[value]value) []value {
	ks := make([]value, 0, len(m))
	for k := range m {
		ks = append(ks, k)
	}
	sort.Slice(ks, func(i, j int) bool { return keyLess(ks[i], ks[j]) })
	return ks
}

func keyLess(a, b value) bool {
	switch x := a.(type) {
	case string:
		if y, ok := b.(string); ok {
			return x < y
		}
	case *value:
		return fmt.Sprintf("%p", a) < fmt.Sprintf("%p", b)
	}
	wa, oka := widenOK(a)
	wb, okb := widenOK(b)
	if oka && okb {
		switch x := wa.(type) {
		case int64:
			if y, ok := wb.(int64); ok {
				return x < y
			}
		case uint64:
			if y, ok := wb.(uint64); ok {
				return x < y
			}
		case float64:
			if y, ok := wb.(float64); ok {
				return x < y
			}
		case bool:
			if y, ok := wb.(bool); ok {
				return !x && y
			}
		}
	}
	return toString(a) < toString(b)
}

func widenOK(v value) (r value, ok bool) {
	switch v.(type) {
	case bool, int, int8, int16, int32, int64, uint, uint8, uint16, uint32, uint64, uintptr, float32, float64:
		return widen(v), true
	}
	return nil, false
}

// lookupSym is lookup() with support for symbolic keys (fork over the
// existing keys, then "absent").
func (fr *frame) lookupSym(instr *ssa.Lookup, x, idx value) value {
	if !containsSym(idx) {
		return lookup(instr, x, idx)
	}
	mt, isMap := instr.X.Type().Underlying().(*types.Map)
	if !isMap {
		// string indexing is ssa.Index; Lookup on string does occur (s[i] with commaok never) - unsupported
		unsupported("lookup with symbolic operand on %s", instr.X.Type())
	}
	res := func(v value, ok bool) value {
		if !ok {
			v = zero(mt.Elem())
		}
		if instr.CommaOk {
			return tuple{v, ok}
		}
		return v
	}
	switch m := x.(type) {
	case map[value]value:
		for _, k := range sortedKeys(m) {
			if ks, ok := k.(string); ok {
				if is, ok := idx.(sstr); ok && len(is.b) != len(ks) {
					continue
				}
			}
			if fr.i.ps.branch(equalsSym(mt.Key(), k, idx)) {
				return res(m[k], true)
			}
		}
		return res(nil, false)
	case *hashmap:
		if m != nil {
			for _, e := range m.sortedEntries() {
				if fr.i.ps.branch(equalsSym(mt.Key(), e.key, idx)) {
					return res(e.value, true)
				}
			}
		}
		return res(nil, false)
	}
	panic(engineBug{fmt.Sprintf("unexpected x type in Lookup: %T", x)})
}

// mapKeyConc makes a map key concrete for an update: symbolic integers are
// concretised by forking; a symbolic string must equal an existing key.
func (fr *frame) mapKeyConc(m value, key value) value {
	if !containsSym(key) {
		return key
	}
	switch k := key.(type) {
	case sym:
		unsupported("map update with a symbolic scalar key")
	case sstr:
		if mm, ok := m.(map[value]value); ok {
			for _, ek := range sortedKeys(mm) {
				if es, ok := ek.(string); ok && len(es) == len(k.b) {
					if fr.i.ps.branch(sstrEqTerm(k, toSstr(es))) {
						return es
					}
				}
			}
		}
		// a fresh key: concretise its bytes (bounded by the concretisation cap)
		bs := make([]byte, len(k.b))
		for i, c := range k.b {
			if sc, ok := c.(sym); ok {
				bs[i] = byte(fr.i.ps.concretize(sc.t, false))
			} else {
				bs[i] = c.(byte)
			}
		}
		return string(bs)
	}
	unsupported("map update with a key containing symbolic parts (%T)", key)
	return nil
}

func (fr *frame) noteMapWrite(m value, key value) {
	if ps := fr.i.ps; ps != nil && ps.monitor != nil {
		ps.monitor.noteMapWrite(fr, m, key)
	}
}
