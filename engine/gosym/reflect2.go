package interp

// Extensions of the reference interpreter's type-tag based reflect model to
// the API the evaluator uses, with reflect's documented panics.

import (
	"fmt"
	"go/token"
	"go/types"
	"reflect"
	"strconv"

	"golang.org/x/tools/go/ssa"
)

func reflectPanic(msg string) {
	panic(targetPanic{iface{tString, msg}})
}

func isInterfaceType(t types.Type) bool {
	if t == nil {
		return false
	}
	_, ok := t.Underlying().(*types.Interface)
	return ok
}

// boxFor converts a reflect.Value payload of dynamic type vt into the
// representation of a variable of static type st.
func boxFor(st types.Type, vt types.Type, v value) value {
	if isInterfaceType(st) {
		if isInterfaceType(vt) {
			return v // already an iface
		}
		if vt == nil {
			return iface{}
		}
		return iface{vt, v}
	}
	return v
}

// valType/valPayload: the dynamic view of a reflect.Value (looking through
// interface-typed Values is NOT done here; reflect keeps Kind Interface).
func rvValid(v value) bool { return rV2V(v) != nil }

func kindOf(t types.Type) reflect.Kind {
	if t == nil {
		return reflect.Invalid
	}
	return reflectKind(t)
}

func zeroValueOf(fr *frame, t types.Type, v value) bool {
	switch x := v.(type) {
	case bool:
		return !x
	case int, int8, int16, int32, int64, uint, uint8, uint16, uint32, uint64, uintptr:
		return asInt64(x) == 0
	case float32:
		return x == 0
	case float64:
		return x == 0
	case complex64:
		return x == 0
	case complex128:
		return x == 0
	case string:
		return x == ""
	case sstr:
		return len(x.b) == 0
	case sym:
		var z *Term
		switch {
		case x.t.w == 0:
			z = mkNot(x.t)
		case x.t.w == wFloat:
			z = mkFCmp("fp.eq", x.t, mkFConst(0))
		default:
			z = mkEq(x.t, mkConst(0, x.t.w))
		}
		return fr.i.ps.branch(z)
	case *value:
		return x == nil
	case []value:
		return x == nil
	case map[value]value:
		return x == nil
	case *hashmap:
		return x == nil
	case chan value:
		return x == nil
	case *ssa.Function:
		return x == nil
	case *closure:
		return x == nil
	case *ssa.Builtin:
		return x == nil
	case iface:
		return x.t == nil
	case structure:
		st := t.Underlying().(*types.Struct)
		for i := range x {
			if !zeroValueOf(fr, st.Field(i).Type(), x[i]) {
				return false
			}
		}
		return true
	case array:
		et := t.Underlying().(*types.Array).Elem()
		for i := range x {
			if !zeroValueOf(fr, et, x[i]) {
				return false
			}
		}
		return true
	case rtype:
		return false
	}
	panic(engineBug{fmt.Sprintf("IsZero of %T", v)})
}

type mapIterModel struct {
	it   *snapIter
	kt   types.Type
	et   types.Type
	cur  [2]value
	ok   bool
	init bool
}

func init() {
	reg("reflect.TypeOf", "type-tag model", func(fr *frame, args []value) value {
		it := args[0].(iface)
		if it.t == nil {
			return iface{}
		}
		return makeReflectType(rtype{it.t})
	})
	reg("(reflect.Value).Kind", "type-tag model", func(fr *frame, args []value) value {
		if !rvValid(args[0]) {
			return uint(0)
		}
		return uint(kindOf(rV2T(args[0]).t))
	})
	reg("(reflect.Value).Type", "type-tag model", func(fr *frame, args []value) value {
		if !rvValid(args[0]) {
			reflectPanic("reflect: call of reflect.Value.Type on zero Value")
		}
		return makeReflectType(rV2T(args[0]))
	})
	reg("(reflect.Value).IsZero", "type-tag model", func(fr *frame, args []value) value {
		if !rvValid(args[0]) {
			reflectPanic("reflect: call of reflect.Value.IsZero on zero Value")
		}
		return zeroValueOf(fr, rV2T(args[0]).t, rV2V(args[0]))
	})
	reg("(reflect.Value).Pointer", "identity of the map / slice backing store / pointee (host address, used for identity only)", func(fr *frame, args []value) value {
		if !rvValid(args[0]) {
			reflectPanic("reflect: call of reflect.Value.Pointer on zero Value")
		}
		switch x := rV2V(args[0]).(type) {
		case map[value]value:
			if x == nil {
				return uintptr(0)
			}
			return reflect.ValueOf(x).Pointer()
		case *hashmap:
			if x == nil {
				return uintptr(0)
			}
			return reflect.ValueOf(x).Pointer()
		case []value:
			if cap(x) == 0 {
				return uintptr(0)
			}
			return reflect.ValueOf(x[:1]).Pointer()
		case *value:
			if x == nil {
				return uintptr(0)
			}
			return reflect.ValueOf(x).Pointer()
		}
		unsupported("reflect.Value.Pointer on %s", kindOf(rV2T(args[0]).t).String())
		return nil
	})
	reg("(reflect.Value).IsNil", "type-tag model", func(fr *frame, args []value) value {
		if !rvValid(args[0]) {
			reflectPanic("reflect: call of reflect.Value.IsNil on zero Value")
		}
		switch kindOf(rV2T(args[0]).t) {
		case reflect.Chan, reflect.Func, reflect.Interface, reflect.Map, reflect.Ptr, reflect.Slice, reflect.UnsafePointer:
		default:
			reflectPanic("reflect: call of reflect.Value.IsNil on " + kindOf(rV2T(args[0]).t).String() + " Value")
		}
		return ext۰reflect۰Value۰IsNil(fr, args)
	})
	reg("(reflect.Value).Interface", "type-tag model", func(fr *frame, args []value) value {
		v := args[0].(structure)
		if !rvValid(v) {
			reflectPanic("reflect: call of reflect.Value.Interface on zero Value")
		}
		if len(v) > 2 {
			if ro, _ := v[2].(bool); ro {
				reflectPanic("reflect.Value.Interface: cannot return value obtained from unexported field or method")
			}
		}
		t := rV2T(v).t
		if isInterfaceType(t) {
			if it, ok := rV2V(v).(iface); ok {
				return it
			}
		}
		return iface{t, rV2V(v)}
	})
	reg("(reflect.Value).CanInterface", "type-tag model", func(fr *frame, args []value) value {
		v := args[0].(structure)
		if !rvValid(v) {
			reflectPanic("reflect: call of reflect.Value.CanInterface on zero Value")
		}
		if len(v) > 2 {
			if ro, _ := v[2].(bool); ro {
				return false
			}
		}
		return true
	})
	reg("(reflect.Value).FieldByName", "type-tag model", func(fr *frame, args []value) value {
		v := args[0].(structure)
		if !rvValid(v) {
			reflectPanic("reflect: call of reflect.Value.FieldByName on zero Value")
		}
		st, ok := rV2T(v).t.Underlying().(*types.Struct)
		if !ok {
			reflectPanic("reflect: call of reflect.Value.FieldByName on " + kindOf(rV2T(v).t).String() + " Value")
		}
		name, isStr := args[1].(string)
		if !isStr {
			// symbolic field name: fork over the fields of matching length
			ss := args[1].(sstr)
			for i := 0; i < st.NumFields(); i++ {
				f := st.Field(i)
				if len(f.Name()) == len(ss.b) && fr.i.ps.branch(sstrEqTerm(ss, toSstr(f.Name()))) {
					name, isStr = f.Name(), true
					break
				}
			}
			if !isStr {
				return makeReflectValue(nil, nil)
			}
		}
		sv := rV2V(v).(structure)
		for i := 0; i < st.NumFields(); i++ {
			f := st.Field(i)
			if f.Name() == name {
				r := makeReflectValue(f.Type(), sv[i]).(structure)
				if !f.Exported() {
					r[2] = true
				}
				return r
			}
		}
		// promoted fields through embedded structs (one level)
		for i := 0; i < st.NumFields(); i++ {
			f := st.Field(i)
			if f.Embedded() {
				if est, ok := f.Type().Underlying().(*types.Struct); ok {
					if inner, ok := sv[i].(structure); ok {
						for j := 0; j < est.NumFields(); j++ {
							if est.Field(j).Name() == name {
								r := makeReflectValue(est.Field(j).Type(), inner[j]).(structure)
								if !est.Field(j).Exported() {
									r[2] = true
								}
								return r
							}
						}
					}
				}
			}
		}
		return makeReflectValue(nil, nil)
	})
	reg("(reflect.Value).MapIndex", "type-tag model", func(fr *frame, args []value) value {
		if !rvValid(args[0]) {
			reflectPanic("reflect: call of reflect.Value.MapIndex on zero Value")
		}
		mt, ok := rV2T(args[0]).t.Underlying().(*types.Map)
		if !ok {
			reflectPanic("reflect: call of reflect.Value.MapIndex on " + kindOf(rV2T(args[0]).t).String() + " Value")
		}
		if !rvValid(args[1]) {
			reflectPanic("reflect: call of reflect.Value.MapIndex with zero Value key")
		}
		if !types.AssignableTo(rV2T(args[1]).t, mt.Key()) {
			reflectPanic("reflect.Value.MapIndex: value of type " + typeString(rV2T(args[1]).t) + " is not assignable to type " + typeString(mt.Key()))
		}
		k := boxFor(mt.Key(), rV2T(args[1]).t, rV2V(args[1]))
		switch m := rV2V(args[0]).(type) {
		case map[value]value:
			if containsSym(k) {
				for _, ek := range sortedKeys(m) {
					if es, ok := ek.(string); ok {
						if ks, ok := k.(sstr); ok && len(ks.b) != len(es) {
							continue
						}
					}
					if fr.i.ps.branch(equalsSym(mt.Key(), ek, k)) {
						return makeReflectValue(mt.Elem(), m[ek])
					}
				}
				return makeReflectValue(nil, nil)
			}
			if v, ok := m[k]; ok {
				return makeReflectValue(mt.Elem(), v)
			}
		case *hashmap:
			if containsSym(k) {
				unsupported("MapIndex with a symbolic key on a hashmap")
			}
			if m != nil {
				if v := m.lookup(k.(hashable)); v != nil {
					return makeReflectValue(mt.Elem(), v)
				}
			}
		default:
			panic(engineBug{fmt.Sprintf("(reflect.Value).MapIndex(%T)", m)})
		}
		return makeReflectValue(nil, nil)
	})
	reg("(reflect.Value).SetMapIndex", "type-tag model", func(fr *frame, args []value) value {
		mt := rV2T(args[0]).t.Underlying().(*types.Map)
		k := boxFor(mt.Key(), rV2T(args[1]).t, rV2V(args[1]))
		if containsSym(k) {
			unsupported("SetMapIndex with a symbolic key")
		}
		if !rvValid(args[2]) {
			switch m := rV2V(args[0]).(type) {
			case map[value]value:
				delete(m, k)
			case *hashmap:
				m.delete(k.(hashable))
			}
			return nil
		}
		et := rV2T(args[2]).t
		if !types.AssignableTo(et, mt.Elem()) {
			reflectPanic("reflect.Value.SetMapIndex: value of type " + typeString(et) + " is not assignable to type " + typeString(mt.Elem()))
		}
		v := boxFor(mt.Elem(), et, rV2V(args[2]))
		fr.noteMapWrite(rV2V(args[0]), k)
		switch m := rV2V(args[0]).(type) {
		case map[value]value:
			if m == nil {
				panic(targetRuntimeError("assignment to entry in nil map"))
			}
			m[k] = v
		case *hashmap:
			m.insert(k.(hashable), v)
		}
		return nil
	})
	reg("(reflect.Value).MapRange", "type-tag model (deterministic key order)", func(fr *frame, args []value) value {
		if !rvValid(args[0]) {
			reflectPanic("reflect: call of reflect.Value.MapRange on zero Value")
		}
		mt, ok := rV2T(args[0]).t.Underlying().(*types.Map)
		if !ok {
			reflectPanic("reflect: call of reflect.Value.MapRange on " + kindOf(rV2T(args[0]).t).String() + " Value")
		}
		it := rangeIter(fr, rV2V(args[0]), mt).(*snapIter)
		var cell value = structure{}
		p := &cell
		if fr.i.mapIters == nil {
			fr.i.mapIters = map[*value]*mapIterModel{}
		}
		fr.i.mapIters[p] = &mapIterModel{it: it, kt: mt.Key(), et: mt.Elem()}
		return p
	})
	reg("(*reflect.MapIter).Next", "type-tag model", func(fr *frame, args []value) value {
		m := fr.i.mapIters[args[0].(*value)]
		t := m.it.next()
		m.ok = t[0].(bool)
		m.init = true
		if m.ok {
			m.cur = [2]value{t[1], t[2]}
		}
		return m.ok
	})
	reg("(*reflect.MapIter).Key", "type-tag model", func(fr *frame, args []value) value {
		m := fr.i.mapIters[args[0].(*value)]
		if !m.init || !m.ok {
			reflectPanic("MapIter.Key called before Next / on exhausted iterator")
		}
		return makeReflectValue(m.kt, m.cur[0])
	})
	reg("(*reflect.MapIter).Value", "type-tag model", func(fr *frame, args []value) value {
		m := fr.i.mapIters[args[0].(*value)]
		if !m.init || !m.ok {
			reflectPanic("MapIter.Value called before Next / on exhausted iterator")
		}
		return makeReflectValue(m.et, m.cur[1])
	})
	reg("(reflect.Value).Len", "type-tag model", func(fr *frame, args []value) value {
		if !rvValid(args[0]) {
			reflectPanic("reflect: call of reflect.Value.Len on zero Value")
		}
		switch v := rV2V(args[0]).(type) {
		case sstr:
			return len(v.b)
		case string, array, chan value, []value, *hashmap, map[value]value:
			return ext۰reflect۰Value۰Len(fr, args)
		}
		reflectPanic("reflect: call of reflect.Value.Len on " + kindOf(rV2T(args[0]).t).String() + " Value")
		return nil
	})
	reg("(reflect.Value).Index", "type-tag model", func(fr *frame, args []value) value {
		i := int(fr.conc(args[1]))
		t := rV2T(args[0]).t.Underlying()
		switch v := rV2V(args[0]).(type) {
		case array:
			if i < 0 || i >= len(v) {
				reflectPanic("reflect: array index out of range")
			}
			return makeReflectValue(t.(*types.Array).Elem(), v[i])
		case []value:
			if i < 0 || i >= len(v) {
				reflectPanic("reflect: slice index out of range")
			}
			return makeReflectValue(t.(*types.Slice).Elem(), v[i])
		case string:
			if i < 0 || i >= len(v) {
				reflectPanic("reflect: string index out of range")
			}
			return makeReflectValue(tUint8, v[i])
		}
		reflectPanic("reflect: call of reflect.Value.Index on " + kindOf(rV2T(args[0]).t).String() + " Value")
		return nil
	})
	reg("reflect.MakeSlice", "type-tag model", func(fr *frame, args []value) value {
		t := args[0].(iface).v.(rtype).t
		st, ok := t.Underlying().(*types.Slice)
		if !ok {
			reflectPanic("reflect.MakeSlice of non-slice type")
		}
		n, c := int(fr.conc(args[1])), int(fr.conc(args[2]))
		if n < 0 || c < 0 || n > c {
			reflectPanic("reflect.MakeSlice: bad len/cap")
		}
		s := make([]value, n, c)
		for i := range s {
			s[i] = zero(st.Elem())
		}
		return makeReflectValue(t, s)
	})
	reg("reflect.MakeMap", "type-tag model", func(fr *frame, args []value) value {
		t := args[0].(iface).v.(rtype).t
		mt, ok := t.Underlying().(*types.Map)
		if !ok {
			reflectPanic("reflect.MakeMapWithSize of non-map type")
		}
		return makeReflectValue(t, makeMap(mt.Key(), 0))
	})
	reg("reflect.Append", "type-tag model", func(fr *frame, args []value) value {
		st, ok := rV2T(args[0]).t.Underlying().(*types.Slice)
		if !ok {
			reflectPanic("reflect: call of reflect.Append on " + kindOf(rV2T(args[0]).t).String() + " Value")
		}
		s, _ := rV2V(args[0]).([]value)
		out := append([]value(nil), s...)
		xs, _ := args[1].([]value)
		for _, x := range xs {
			if !rvValid(x) {
				reflectPanic("reflect: call of reflect.Value.Set on zero Value / reflect.Set: value of type <invalid> is not assignable")
			}
			xt := rV2T(x).t
			if !types.AssignableTo(xt, st.Elem()) {
				reflectPanic("reflect.Set: value of type " + typeString(xt) + " is not assignable to type " + typeString(st.Elem()))
			}
			out = append(out, boxFor(st.Elem(), xt, rV2V(x)))
		}
		return makeReflectValue(rV2T(args[0]).t, out)
	})
	reg("(reflect.Value).CanConvert", "go/types convertibility", func(fr *frame, args []value) value {
		if !rvValid(args[0]) {
			reflectPanic("reflect: call of reflect.Value.Type on zero Value")
		}
		src := rV2T(args[0]).t
		dst := args[1].(iface).v.(rtype).t
		if n, ok := sliceToArrayLen(src, dst); ok {
			// reflect: a slice converts to an array (pointer) only if it is long enough
			sl, _ := rV2V(args[0]).([]value)
			return canConvert(src, dst) && int64(len(sl)) >= n
		}
		return canConvert(src, dst)
	})
	reg("(reflect.Value).Convert", "interpreter conversion rules", func(fr *frame, args []value) value {
		if !rvValid(args[0]) {
			reflectPanic("reflect: call of reflect.Value.Convert on zero Value")
		}
		src := rV2T(args[0]).t
		dst := args[1].(iface).v.(rtype).t
		if !canConvert(src, dst) {
			reflectPanic("reflect.Value.Convert: value of type " + typeString(src) + " cannot be converted to type " + typeString(dst))
		}
		v := rV2V(args[0])
		if isInterfaceType(dst) {
			return makeReflectValue(dst, boxFor(dst, src, v))
		}
		if n, ok := sliceToArrayLen(src, dst); ok {
			sl, _ := v.([]value)
			if int64(len(sl)) < n {
				reflectPanic("reflect: cannot convert slice with length " + strconv.Itoa(len(sl)) + " to array (pointer) with length " + strconv.FormatInt(n, 10))
			}
			// model: the array is a copy of the first n elements (aliasing with the slice is not modelled)
			arr := make(array, n)
			copy(arr, sl[:n])
			if _, isPtr := dst.Underlying().(*types.Pointer); isPtr {
				var cell value = arr
				return makeReflectValue(dst, &cell)
			}
			return makeReflectValue(dst, arr)
		}
		if types.Identical(src.Underlying(), dst.Underlying()) {
			return makeReflectValue(dst, v)
		}
		if _, ok := src.Underlying().(*types.Pointer); ok {
			return makeReflectValue(dst, v)
		}
		return makeReflectValue(dst, fr.convSym(dst, src, v))
	})
	reg("(reflect.Value).Call", "type-tag model with reflect's arity/assignability panics", func(fr *frame, args []value) value {
		if !rvValid(args[0]) {
			reflectPanic("reflect: call of reflect.Value.Call on zero Value")
		}
		sig, ok := rV2T(args[0]).t.Underlying().(*types.Signature)
		if !ok {
			reflectPanic("reflect: call of reflect.Value.Call on " + kindOf(rV2T(args[0]).t).String() + " Value")
		}
		fn := rV2V(args[0])
		switch f := fn.(type) {
		case *ssa.Function:
			if f == nil {
				reflectPanic("reflect: call of nil function")
			}
		case *closure:
			if f == nil {
				reflectPanic("reflect: call of nil function")
			}
		}
		in, _ := args[1].([]value)
		n := sig.Params().Len()
		var callArgs []value
		if sig.Variadic() {
			if len(in) < n-1 {
				reflectPanic("reflect: Call with too few input arguments")
			}
		} else {
			if len(in) < n {
				reflectPanic("reflect: Call with too few input arguments")
			}
			if len(in) > n {
				reflectPanic("reflect: Call with too many input arguments")
			}
		}
		for _, a := range in {
			if !rvValid(a) {
				reflectPanic("reflect: Call using zero Value argument")
			}
		}
		fixed := n
		if sig.Variadic() {
			fixed = n - 1
		}
		for i := 0; i < fixed; i++ {
			pt := sig.Params().At(i).Type()
			at := rV2T(in[i]).t
			if !types.AssignableTo(at, pt) {
				reflectPanic("reflect: Call using " + typeString(at) + " as type " + typeString(pt))
			}
			callArgs = append(callArgs, boxFor(pt, at, rV2V(in[i])))
		}
		if sig.Variadic() {
			et := sig.Params().At(n - 1).Type().(*types.Slice).Elem()
			var tail []value
			for i := fixed; i < len(in); i++ {
				at := rV2T(in[i]).t
				if !types.AssignableTo(at, et) {
					reflectPanic("reflect: cannot use " + typeString(at) + " as type " + typeString(et) + " in Call")
				}
				tail = append(tail, boxFor(et, at, rV2V(in[i])))
			}
			callArgs = append(callArgs, tail)
		}
		res := call(fr.i, fr, token.NoPos, fn, callArgs)
		var out []value
		switch sig.Results().Len() {
		case 0:
		case 1:
			out = append(out, makeReflectValue(sig.Results().At(0).Type(), res))
		default:
			for i, r := range res.(tuple) {
				out = append(out, makeReflectValue(sig.Results().At(i).Type(), r))
			}
		}
		return out
	})
	reg("(reflect.Value).String", "type-tag model", func(fr *frame, args []value) value {
		if !rvValid(args[0]) {
			return "<invalid Value>"
		}
		switch s := rV2V(args[0]).(type) {
		case string, sstr:
			return s
		}
		return "<" + typeString(rV2T(args[0]).t) + " Value>"
	})
	reg("(reflect.Value).Elem", "type-tag model", func(fr *frame, args []value) value {
		if !rvValid(args[0]) {
			reflectPanic("reflect: call of reflect.Value.Elem on zero Value")
		}
		switch x := rV2V(args[0]).(type) {
		case iface:
			if x.t == nil {
				return makeReflectValue(nil, nil)
			}
			return makeReflectValue(x.t, x.v)
		case *value:
			if x == nil {
				return makeReflectValue(nil, nil)
			}
			return makeReflectValue(mustDeref(rV2T(args[0]).t), *x)
		}
		reflectPanic("reflect: call of reflect.Value.Elem on " + kindOf(rV2T(args[0]).t).String() + " Value")
		return nil
	})
	reg("reflect.Indirect", "type-tag model", func(fr *frame, args []value) value {
		if x, ok := rV2V(args[0]).(*value); ok && kindOf(rV2T(args[0]).t) == reflect.Ptr {
			if x == nil {
				return makeReflectValue(nil, nil)
			}
			return makeReflectValue(mustDeref(rV2T(args[0]).t), *x)
		}
		return args[0]
	})

	// ---- reflect.Type methods ----
	sigOf := func(t types.Type) *types.Signature {
		s, ok := t.Underlying().(*types.Signature)
		if !ok {
			reflectPanic("reflect: NumIn/In/IsVariadic of non-func type " + typeString(t))
		}
		return s
	}
	reg("(reflect.rtype).In", "type-tag model", func(fr *frame, args []value) value {
		s := sigOf(args[0].(rtype).t)
		i := int(fr.conc(args[1]))
		if i < 0 || i >= s.Params().Len() {
			panic(targetRuntimeError("index out of range (reflect.Type.In)"))
		}
		return makeReflectType(rtype{s.Params().At(i).Type()})
	})
	reg("(reflect.rtype).NumIn", "type-tag model", func(fr *frame, args []value) value {
		return sigOf(args[0].(rtype).t).Params().Len()
	})
	reg("(reflect.rtype).NumOut", "type-tag model", func(fr *frame, args []value) value {
		return sigOf(args[0].(rtype).t).Results().Len()
	})
	reg("(reflect.rtype).IsVariadic", "type-tag model", func(fr *frame, args []value) value {
		return sigOf(args[0].(rtype).t).Variadic()
	})
	reg("(reflect.rtype).Key", "type-tag model", func(fr *frame, args []value) value {
		m, ok := args[0].(rtype).t.Underlying().(*types.Map)
		if !ok {
			reflectPanic("reflect: Key of non-map type " + typeString(args[0].(rtype).t))
		}
		return makeReflectType(rtype{m.Key()})
	})
	reg("(reflect.rtype).Elem", "type-tag model", func(fr *frame, args []value) value {
		switch u := args[0].(rtype).t.Underlying().(type) {
		case *types.Map:
			return makeReflectType(rtype{u.Elem()})
		case *types.Slice:
			return makeReflectType(rtype{u.Elem()})
		case *types.Array:
			return makeReflectType(rtype{u.Elem()})
		case *types.Pointer:
			return makeReflectType(rtype{u.Elem()})
		case *types.Chan:
			return makeReflectType(rtype{u.Elem()})
		}
		reflectPanic("reflect: Elem of invalid type " + typeString(args[0].(rtype).t))
		return nil
	})
	reg("(reflect.rtype).Name", "type-tag model", func(fr *frame, args []value) value {
		switch n := args[0].(rtype).t.(type) {
		case *types.Named:
			return n.Obj().Name()
		case *types.Basic:
			return n.Name()
		}
		return ""
	})
	reg("(reflect.rtype).String", "type-tag model", func(fr *frame, args []value) value {
		return typeString(args[0].(rtype).t)
	})
	reg("(reflect.rtype).Comparable", "type-tag model", func(fr *frame, args []value) value {
		return types.Comparable(args[0].(rtype).t)
	})
	reg("(reflect.rtype).ConvertibleTo", "go/types convertibility", func(fr *frame, args []value) value {
		return canConvert(args[0].(rtype).t, args[1].(iface).v.(rtype).t)
	})
	reg("(reflect.rtype).AssignableTo", "go/types assignability", func(fr *frame, args []value) value {
		return types.AssignableTo(args[0].(rtype).t, args[1].(iface).v.(rtype).t)
	})
	reg("(reflect.rtype).Implements", "go/types", func(fr *frame, args []value) value {
		it, ok := args[1].(iface).v.(rtype).t.Underlying().(*types.Interface)
		if !ok {
			reflectPanic("reflect: non-interface type passed to Type.Implements")
		}
		return types.Implements(args[0].(rtype).t, it)
	})
	reg("(reflect.rtype).PkgPath", "type-tag model", func(fr *frame, args []value) value {
		if n, ok := args[0].(rtype).t.(*types.Named); ok && n.Obj().Pkg() != nil {
			return n.Obj().Pkg().Path()
		}
		return ""
	})
	reg("(reflect.rtype).FieldByName", "type-tag model", func(fr *frame, args []value) value {
		st, ok := args[0].(rtype).t.Underlying().(*types.Struct)
		if !ok {
			reflectPanic("reflect: FieldByName of non-struct type " + typeString(args[0].(rtype).t))
		}
		name, isStr := args[1].(string)
		if !isStr {
			unsupported("Type.FieldByName with a symbolic name")
		}
		for i := 0; i < st.NumFields(); i++ {
			f := st.Field(i)
			if f.Name() == name {
				pkg := ""
				if !f.Exported() && f.Pkg() != nil {
					pkg = f.Pkg().Path()
				}
				return tuple{structure{f.Name(), pkg, makeReflectType(rtype{f.Type()}), st.Tag(i), uintptr(0), []value{i}, f.Anonymous()}, true}
			}
		}
		return tuple{structure{"", "", iface{}, "", uintptr(0), []value(nil), false}, false}
	})
	reg("(reflect.Value).FieldByIndex", "type-tag model", func(fr *frame, args []value) value {
		v := args[0].(structure)
		idx, _ := args[1].([]value)
		for _, iv := range idx {
			if !rvValid(v) {
				reflectPanic("reflect: call of reflect.Value.FieldByIndex on zero Value")
			}
			st, ok := rV2T(v).t.Underlying().(*types.Struct)
			if !ok {
				reflectPanic("reflect: call of reflect.Value.Field on " + kindOf(rV2T(v).t).String() + " Value")
			}
			i := int(asInt64(iv))
			if i < 0 || i >= st.NumFields() {
				reflectPanic("reflect: Field index out of range")
			}
			f := st.Field(i)
			nv := makeReflectValue(f.Type(), rV2V(v).(structure)[i]).(structure)
			if !f.Exported() || (len(v) > 2 && v[2] == true) {
				nv[2] = true
			}
			v = nv
		}
		return v
	})
	reg("(reflect.Value).Field", "type-tag model", func(fr *frame, args []value) value {
		v := args[0].(structure)
		if !rvValid(v) {
			reflectPanic("reflect: call of reflect.Value.Field on zero Value")
		}
		st, ok := rV2T(v).t.Underlying().(*types.Struct)
		if !ok {
			reflectPanic("reflect: call of reflect.Value.Field on " + kindOf(rV2T(v).t).String() + " Value")
		}
		i := int(fr.conc(args[1]))
		if i < 0 || i >= st.NumFields() {
			reflectPanic("reflect: Field index out of range")
		}
		f := st.Field(i)
		nv := makeReflectValue(f.Type(), rV2V(v).(structure)[i]).(structure)
		if !f.Exported() || (len(v) > 2 && v[2] == true) {
			nv[2] = true
		}
		return nv
	})
	reg("(reflect.rtype).Len", "type-tag model", func(fr *frame, args []value) value {
		a, ok := args[0].(rtype).t.Underlying().(*types.Array)
		if !ok {
			reflectPanic("reflect: Len of non-array type")
		}
		return int(a.Len())
	})
}

// sliceToArrayLen: src is a slice and dst an array or pointer to array; returns the array length.
func sliceToArrayLen(src, dst types.Type) (int64, bool) {
	if src == nil || dst == nil {
		return 0, false
	}
	if _, ok := src.Underlying().(*types.Slice); !ok {
		return 0, false
	}
	d := dst.Underlying()
	if p, ok := d.(*types.Pointer); ok {
		d = p.Elem().Underlying()
	}
	if a, ok := d.(*types.Array); ok {
		return a.Len(), true
	}
	return 0, false
}

func canConvert(src, dst types.Type) bool {
	if src == nil || dst == nil {
		return false
	}
	// reflect: slice -> array(pointer) depends on length; not needed here
	return types.ConvertibleTo(src, dst)
}
