package interp

// Path exploration by re-execution with decision prefixes.

import (
	"fmt"
	"os"
	"sort"
	"strings"
	"sync"
	"time"
)

type varDecl struct {
	name string
	w    int
	kind string // "byte", "int", "bool", ... (for the replay file)
	tag  string // harness-supplied name
}

type decision struct {
	conc bool  // concretisation decision (else a branch)
	b    bool  // branch side taken / for conc: true = "== v", false = "!= v"
	v    int64 // concretised value
}

// engine-internal control transfers (never visible to target recover())
type pathAbort struct{ why string }
type inconclusive struct{ why string }
type budgetExceeded struct{ steps int }

func isEngineSignal(p interface{}) bool {
	switch p.(type) {
	case pathAbort, inconclusive, budgetExceeded, engineBug, targetFatal:
		return true
	}
	return false
}

type engineBug struct{ msg string }

// targetFatal: the real program dies with an unrecoverable runtime fatal error
// (stack overflow); no recover() of the program under test may intercept it.
type targetFatal string

func unsupported(format string, a ...interface{}) {
	panic(inconclusive{fmt.Sprintf(format, a...)})
}

type AssertResult struct {
	Label  string
	Status string // "unsat" (discharged), "folded" (constant true), "sat", "unknown", "concrete-false"
	Model  Model
	Extra  []Model // further, diversified counterexamples of the same obligation (for native confirmation)
}

// ExtraModels: how many additional diversified models to extract per failing obligation.
var ExtraModels = 6

type observation struct {
	label string
	vals  []value
}

type pathState struct {
	ex       *Explorer
	wk       *worker
	sol      *Solver
	prefix   []decision
	pos      int
	vars     []varDecl
	bindings map[string]*Term
	memo     map[*Term]*Term
	asserts  []AssertResult
	obs      []observation
	reached  []string
	events   []string // sequence of assert/reach/observe labels
	evs      []event  // the same with terms/values, for rendering under a model
	steps    int
	depth    int
	forks    int
	nconc    map[*Term]int
	ivals    map[string]*ival
	cache    Model // a model of the current path condition, if known
	ufDecl   map[string]bool
	monitor  *writeMonitor
}

func (ps *pathState) fresh(tag, kind string, w int) *Term {
	n := fmt.Sprintf("v%d_%s", len(ps.vars), sanitize(tag))
	ps.sol.Send("(declare-const " + n + " " + sortOf(w) + ")")
	ps.vars = append(ps.vars, varDecl{name: n, w: w, kind: kind, tag: tag})
	return mkVar(n, w)
}

func sanitize(s string) string {
	var sb strings.Builder
	for _, c := range s {
		if c >= 'a' && c <= 'z' || c >= 'A' && c <= 'Z' || c >= '0' && c <= '9' || c == '_' {
			sb.WriteRune(c)
		} else {
			sb.WriteByte('_')
		}
	}
	return sb.String()
}

func (ps *pathState) subst(t *Term) *Term {
	if len(ps.bindings) == 0 {
		return t
	}
	return substBindings(t, ps.bindings, ps.memo)
}

// assume adds c to the path condition (c already known feasible / chosen).
func (ps *pathState) assertPC(c *Term) {
	ps.sol.Send("(assert " + smt(c) + ")")
	ps.learn(c)
	ps.learnIval(c, true)
}

var CrossCheckIntervals = false
var Progress = os.Getenv("VP_PROGRESS") != ""

// decide3 is eval3 with an optional solver cross-check (selftest).
func (ps *pathState) decide3(c *Term) int {
	r := ps.eval3(c)
	if r >= 0 && CrossCheckIntervals {
		q := c
		if r == 1 {
			q = mkNot(c)
		}
		if ps.feasible(q) != "unsat" {
			panic(engineBug{"interval domain disagrees with the solver on " + smt(c)})
		}
	}
	if r >= 0 {
		ps.ex.addFolded()
	}
	return r
}

func (ps *pathState) learn(c *Term) {
	switch c.op {
	case "and":
		for _, a := range c.args {
			ps.learn(a)
		}
	case "=":
		a, b := c.args[0], c.args[1]
		if b.op == "var" && a.isConst() {
			a, b = b, a
		}
		if a.op == "var" && b.isConst() {
			ps.bind(a.name, b)
		}
	case "var":
		if c.w == 0 {
			ps.bind(c.name, tTrue)
		}
	case "not":
		if x := c.args[0]; x.op == "var" && x.w == 0 {
			ps.bind(x.name, tFalse)
		}
	}
}

func (ps *pathState) bind(name string, c *Term) {
	if ps.bindings == nil {
		ps.bindings = map[string]*Term{}
	}
	if _, ok := ps.bindings[name]; !ok {
		ps.bindings[name] = c
		ps.memo = map[*Term]*Term{}
	}
}

func (ps *pathState) feasible(c *Term) string {
	r, _ := ps.feasibleM(c, false)
	return r
}

// feasibleM checks PC ∧ c; with wantModel it also returns a model when sat.
func (ps *pathState) feasibleM(c *Term, wantModel bool) (string, Model) {
	ps.sol.Send("(push)")
	ps.sol.Send("(assert " + smt(c) + ")")
	r := ps.sol.Check()
	var m Model
	if r == "sat" && wantModel && UseModelCache {
		if mm, ok := ps.sol.GetValues(ps.vars); ok {
			m = mm
		}
	}
	ps.sol.Send("(pop)")
	return r, m
}

var UseModelCache = true

// evalUnder evaluates Bool term c under model m: 1, 0 or -1 (not evaluable).
func evalUnder(c *Term, m Model) int {
	r := evalTerm(c, m, map[*Term]*Term{})
	if !r.isConst() || r.w != 0 {
		return -1
	}
	return int(r.val)
}

// branch decides a symbolic condition, forking when both sides are feasible.
func (ps *pathState) branch(c *Term) bool {
	c = ps.subst(c)
	if c.isConst() {
		return c.val != 0
	}
	if r := ps.decide3(c); r >= 0 {
		return r == 1
	}
	if ps.pos < len(ps.prefix) {
		d := ps.prefix[ps.pos]
		ps.pos++
		if d.conc {
			panic(engineBug{"decision prefix diverged: expected branch, recorded concretisation"})
		}
		ps.cache = nil
		if d.b {
			ps.assertPC(c)
		} else {
			ps.assertPC(mkNot(c))
		}
		return d.b
	}
	neg := mkNot(c)
	var rt, rf string
	var mt, mf Model
	known := -1
	if ps.cache != nil {
		known = evalUnder(c, ps.cache)
	}
	switch known {
	case 1:
		rt, mt = "sat", ps.cache
		rf, mf = ps.feasibleM(neg, false)
	case 0:
		rf, mf = "sat", ps.cache
		rt, mt = ps.feasibleM(c, true)
	default:
		rt, mt = ps.feasibleM(c, true)
		rf = "sat"
		if rt != "unsat" {
			rf, mf = ps.feasibleM(neg, false)
		} else {
			mf = ps.cache
		}
	}
	var d bool
	switch {
	case rt != "unsat" && rf != "unsat":
		alt := make([]decision, len(ps.prefix), len(ps.prefix)+1)
		copy(alt, ps.prefix)
		alt = append(alt, decision{b: false})
		ps.ex.push(alt)
		ps.forks++
		d = true
	case rt != "unsat":
		d = true
	default:
		d = false
	}
	ps.prefix = append(ps.prefix, decision{b: d})
	ps.pos++
	if d {
		ps.cache = mt
		ps.assertPC(c)
	} else {
		ps.cache = mf
		ps.assertPC(neg)
	}
	return d
}

// concretize turns a symbolic integer into a concrete one by forking over its
// feasible values (the chosen values are recorded in the decision prefix).
func (ps *pathState) concretize(t *Term, signed bool) int64 {
	for n := 0; ; n++ {
		t = ps.subst(t)
		if t.isConst() {
			if signed {
				return sext(t.val, t.w)
			}
			return int64(t.val)
		}
		if n > ps.ex.ConcretizeCap {
			unsupported("concretisation of a value with more than %d feasible values", ps.ex.ConcretizeCap)
		}
		if ps.pos < len(ps.prefix) {
			d := ps.prefix[ps.pos]
			ps.pos++
			if !d.conc {
				panic(engineBug{"decision prefix diverged: expected concretisation, recorded branch"})
			}
			eq := mkEq(t, mkConst(uint64(d.v), t.w))
			if d.b {
				ps.cache = nil
				ps.assertPC(eq)
				return d.v
			}
			ps.cache = nil
			ps.assertPC(mkNot(eq))
			continue
		}
		r := ps.sol.Check()
		if r == "unsat" {
			panic(pathAbort{"infeasible at concretisation"})
		}
		if r != "sat" {
			unsupported("solver %s while concretising", r)
		}
		uv, ok := ps.sol.GetTermValue(t)
		if !ok {
			unsupported("cannot read model value while concretising")
		}
		v := int64(uv)
		if signed {
			v = sext(uv, t.w)
		}
		eq := mkEq(t, mkConst(uint64(v), t.w))
		if ps.feasible(mkNot(eq)) != "unsat" {
			alt := make([]decision, len(ps.prefix), len(ps.prefix)+1)
			copy(alt, ps.prefix)
			alt = append(alt, decision{conc: true, b: false, v: v})
			ps.ex.push(alt)
			ps.forks++
		}
		ps.prefix = append(ps.prefix, decision{conc: true, b: true, v: v})
		ps.pos++
		ps.cache = nil
		ps.assertPC(eq)
		return v
	}
}

func (ps *pathState) model() (Model, string) {
	r := ps.sol.Check()
	if r != "sat" {
		return nil, r
	}
	m, ok := ps.sol.GetValues(ps.vars)
	if !ok {
		return nil, "error"
	}
	return m, "sat"
}

// assertProp discharges a harness assertion.
func (ps *pathState) assertProp(label string, cv value) {
	ps.events = append(ps.events, "A:"+label)
	var c *Term
	switch x := cv.(type) {
	case bool:
		c = mkBool(x)
		ps.evs = append(ps.evs, event{kind: 'A', label: label, b: x})
	case sym:
		ps.evs = append(ps.evs, event{kind: 'A', label: label, cond: x.t})
		c = ps.subst(x.t)
	default:
		panic(engineBug{fmt.Sprintf("vpAssert: condition of type %T", cv)})
	}
	if c.isConst() {
		if c.val != 0 {
			ps.asserts = append(ps.asserts, AssertResult{Label: label, Status: "folded"})
			return
		}
		m, st := ps.model()
		if st == "unsat" {
			panic(pathAbort{"infeasible at assertion"})
		}
		ps.asserts = append(ps.asserts, AssertResult{Label: label, Status: "concrete-false", Model: m})
		return
	}
	ps.sol.Send("(push)")
	ps.sol.Send("(assert " + smt(mkNot(c)) + ")")
	r := ps.sol.Check()
	res := AssertResult{Label: label, Status: r}
	if r == "sat" {
		m, ok := ps.sol.GetValues(ps.vars)
		if ok {
			res.Model = m
			res.Extra = ps.diverseModels()
		} else {
			res.Status = "error"
		}
	}
	ps.sol.Send("(pop)")
	ps.asserts = append(ps.asserts, res)
}

// diverseModels extracts further models of the current (satisfiable) solver
// state, each under one extra constraint fixing a bit of an input variable.
func (ps *pathState) diverseModels() []Model {
	var out []Model
	var bv []varDecl
	for _, v := range ps.vars {
		if v.w > 1 {
			bv = append(bv, v)
		}
	}
	if len(bv) == 0 {
		return nil
	}
	for j := 0; j < ExtraModels; j++ {
		v := bv[(j*7+3)%len(bv)]
		bit := (j*13 + 5) % v.w
		if v.w > 20 {
			bit = (j*5 + 11) % 20 // low bits: keeps range assumptions satisfiable
		}
		ps.sol.Send("(push)")
		ps.sol.Send(fmt.Sprintf("(assert (= ((_ extract %d %d) %s) #b%d))", bit, bit, v.name, j&1))
		if ps.sol.Check() == "sat" {
			if m, ok := ps.sol.GetValues(ps.vars); ok {
				out = append(out, m)
			}
		}
		ps.sol.Send("(pop)")
	}
	return out
}

func (ps *pathState) assume(cv value) {
	switch x := cv.(type) {
	case bool:
		if !x {
			panic(pathAbort{"assume"})
		}
	case sym:
		c := ps.subst(x.t)
		if c.isConst() {
			if c.val == 0 {
				panic(pathAbort{"assume"})
			}
			return
		}
		switch ps.decide3(c) {
		case 1:
			return
		case 0:
			panic(pathAbort{"assume"})
		}
		// An assumption is a branch whose false side is discarded.  While
		// replaying a prefix the same assumption was already found feasible
		// under the same path condition by the run that created the prefix.
		if ps.pos >= len(ps.prefix) {
			if ps.cache != nil && evalUnder(c, ps.cache) == 1 {
				// the cached model already satisfies the assumption
			} else {
				r, m := ps.feasibleM(c, true)
				if r == "unsat" {
					panic(pathAbort{"assume"})
				}
				ps.cache = m
			}
		} else {
			ps.cache = nil
		}
		ps.assertPC(c)
	default:
		panic(engineBug{fmt.Sprintf("vpAssume: condition of type %T", cv)})
	}
}

// ---------------------------------------------------------------------------

type PathRecord struct {
	Outcome  string // "ok", "panic: ...", "abort: ...", "inconclusive: ...", "budget"
	Asserts  []AssertResult
	Events   []string
	Reached  []string
	Steps    int
	Model    Model     // sample model of the path condition (if requested)
	Vars     []varDecl // declared nondet values, in order
	Expected []string  // expected native event trace under Model
	Writes   []string  // write-monitor records
}

type Explorer struct {
	mu            sync.Mutex
	cond          *sync.Cond
	work          [][]decision
	active        int
	stop          bool
	ConcretizeCap int
	StepBudget    int
	DepthBudget   int
	SampleEvery   int // keep a replayable model for every n-th completed path (0 = none)
	MaxPaths      int
	Deadline      time.Time

	// results
	Paths           int
	Forks           int
	Outcomes        map[string]int
	Inconclusive    map[string]int
	AssertStats     map[string]map[string]int // label -> status -> count
	Violations      []*PathRecord             // paths with a sat/concrete-false assertion, a panic or a budget overrun
	Samples         []*PathRecord
	ReachCount      map[string]int
	MaxSteps        int
	TotalSteps      int64
	Bugs            []string
	FuncsHit        map[string]int
	Solvers         []*Solver
	Truncated       bool
	PerLabelCap     int
	violPerLabel    map[string]int
	WriteRecs       map[string]int
	IntervalDecided int
}

func newExplorer() *Explorer {
	ex := &Explorer{ConcretizeCap: 300, StepBudget: 3000000, DepthBudget: 12000, PerLabelCap: 4,
		Outcomes: map[string]int{}, Inconclusive: map[string]int{}, AssertStats: map[string]map[string]int{},
		ReachCount: map[string]int{}, FuncsHit: map[string]int{}, violPerLabel: map[string]int{}, WriteRecs: map[string]int{}}
	ex.cond = sync.NewCond(&ex.mu)
	return ex
}

func (ex *Explorer) addFolded() {
	ex.mu.Lock()
	ex.IntervalDecided++
	ex.mu.Unlock()
}

func (ex *Explorer) push(p []decision) {
	ex.mu.Lock()
	ex.work = append(ex.work, p)
	ex.mu.Unlock()
	ex.cond.Signal()
}

func (ex *Explorer) pop() ([]decision, bool) {
	ex.mu.Lock()
	defer ex.mu.Unlock()
	for {
		if ex.stop {
			return nil, false
		}
		if n := len(ex.work); n > 0 {
			p := ex.work[n-1]
			ex.work = ex.work[:n-1]
			ex.active++
			return p, true
		}
		if ex.active == 0 {
			ex.cond.Broadcast()
			return nil, false
		}
		ex.cond.Wait()
	}
}

func (ex *Explorer) done() {
	ex.mu.Lock()
	ex.active--
	if ex.active == 0 && len(ex.work) == 0 {
		ex.cond.Broadcast()
	}
	ex.mu.Unlock()
}

func (ex *Explorer) record(rec *PathRecord, ps *pathState, funcs map[string]int) {
	ex.mu.Lock()
	defer ex.mu.Unlock()
	ex.Paths++
	if Progress && ex.Paths%5000 == 0 {
		fmt.Fprintf(os.Stderr, "  .. %d paths, %d queued, outcomes %v\n", ex.Paths, len(ex.work), ex.Outcomes)
	}
	ex.Forks += ps.forks
	ex.TotalSteps += int64(rec.Steps)
	if rec.Steps > ex.MaxSteps {
		ex.MaxSteps = rec.Steps
	}
	key := rec.Outcome
	if i := strings.Index(key, ":"); i > 0 {
		key = key[:i]
	}
	ex.Outcomes[key]++
	if key == "inconclusive" {
		ex.Inconclusive[rec.Outcome]++
	}
	if key == "enginebug" && len(ex.Bugs) < 20 {
		ex.Bugs = append(ex.Bugs, rec.Outcome)
	}
	for _, r := range rec.Reached {
		ex.ReachCount[r]++
	}
	for _, w := range rec.Writes {
		ex.WriteRecs[w]++
	}
	bad := false
	for _, a := range rec.Asserts {
		m := ex.AssertStats[a.Label]
		if m == nil {
			m = map[string]int{}
			ex.AssertStats[a.Label] = m
		}
		m[a.Status]++
		if a.Status == "sat" || a.Status == "concrete-false" {
			if ex.violPerLabel[a.Label] < ex.PerLabelCap {
				ex.violPerLabel[a.Label]++
				bad = true
			}
		}
	}
	if key == "panic" || key == "budget" {
		lab := rec.Outcome
		if len(lab) > 90 {
			lab = lab[:90]
		}
		if ex.violPerLabel[lab] < ex.PerLabelCap {
			ex.violPerLabel[lab]++
			bad = true
		}
	}
	if bad {
		ex.Violations = append(ex.Violations, rec)
	} else if rec.Model != nil && (key == "ok" || key == "panic") {
		ex.Samples = append(ex.Samples, rec)
	}
	for k, v := range funcs {
		ex.FuncsHit[k] += v
	}
	// non-termination candidates are expensive (each burns the whole step budget): after a few of
	// them the run stops; it is then truncated, i.e. inconclusive unless a candidate is confirmed natively
	if ex.MaxPaths > 0 && ex.Paths >= ex.MaxPaths || !ex.Deadline.IsZero() && time.Now().After(ex.Deadline) || ex.Outcomes["budget"] >= 12 {
		if len(ex.work) > 0 || ex.active > 1 {
			ex.Truncated = true
		}
		ex.stop = true
		ex.cond.Broadcast()
	}
}

func (ex *Explorer) SortedOutcomes() []string {
	var ks []string
	for k, v := range ex.Outcomes {
		ks = append(ks, fmt.Sprintf("%s=%d", k, v))
	}
	sort.Strings(ks)
	return ks
}
