package interp

// Environment models ("externals").  Every model listed here is part of the
// claim and is reported in evidence under "stubs".

import (
	"fmt"
	"go/token"
	"go/types"
	"math"
	"math/bits"
	"strings"
	"unicode/utf8"

	"golang.org/x/tools/go/ssa"
)

const harnessPkg = "github.com/aundis/formula"

var ModelNotes = map[string]string{}

func reg(name, note string, fn externalFn) {
	externals[name] = fn
	if note != "" {
		ModelNotes[name] = note
	}
}

func ifaceString(v value) (value, bool) {
	it, ok := v.(iface)
	if !ok {
		return nil, false
	}
	switch x := it.v.(type) {
	case string, sstr:
		return x, true
	}
	return nil, false
}

func goString(v value) string {
	switch x := v.(type) {
	case string:
		return x
	case sstr:
		panic(engineBug{"label/name arguments of harness primitives must be concrete strings"})
	}
	panic(engineBug{fmt.Sprintf("goString %T", v)})
}

func init() {
	// ---- harness primitives (package formula, overlay file zz_vp_rt.go) ----
	nd := func(kind string, w int, typ types.Type) externalFn {
		return func(fr *frame, args []value) value {
			return sym{fr.i.ps.fresh(goString(args[0]), kind, w)}
		}
	}
	reg(harnessPkg+".vpByte", "", nd("byte", 8, tUint8))
	reg(harnessPkg+".vpBool", "", nd("bool", 0, tBool))
	reg(harnessPkg+".vpInt", "", nd("int", 64, tInt))
	reg(harnessPkg+".vpInt64", "", nd("int64", 64, tInt64))
	reg(harnessPkg+".vpUint64", "", nd("uint64", 64, tUint64))
	reg(harnessPkg+".vpRune", "", nd("rune", 32, tInt32))
	reg(harnessPkg+".vpFloat64", "", nd("float64", wFloat, tFloat64))
	reg(harnessPkg+".vpBits", "", func(fr *frame, args []value) value {
		n := int(fr.conc(args[1]))
		if n <= 0 || n > 64 {
			panic(engineBug{"vpBits: width out of range"})
		}
		v := fr.i.ps.fresh(goString(args[0]), "bits", n)
		return mkValue(mkExtend(false, 64-n, v), tUint64)
	})
	reg(harnessPkg+".vpUF", "", func(fr *frame, args []value) value {
		ps := fr.i.ps
		name := "uf_" + sanitize(goString(args[0]))
		xs, _ := args[1].([]value)
		ts := make([]*Term, len(xs))
		for i, x := range xs {
			ts[i] = mkResize(toTerm(x), 64, true)
		}
		key := fmt.Sprintf("%s/%d", name, len(ts))
		if ps.ufDecl == nil {
			ps.ufDecl = map[string]bool{}
		}
		if !ps.ufDecl[key] {
			ps.ufDecl[key] = true
			sig := strings.Repeat("(_ BitVec 64) ", len(ts))
			ps.sol.Send("(declare-fun " + name + " (" + sig + ") (_ BitVec 64))")
		}
		t := mkRaw("uf", 64, ts...)
		t.name = name
		return sym{t}
	})
	reg(harnessPkg+".vpParam", "", func(fr *frame, args []value) value {
		n := goString(args[0])
		v, ok := fr.i.wk.cfg.Params[n]
		if !ok {
			panic(engineBug{"harness parameter " + n + " not configured"})
		}
		return v
	})
	reg(harnessPkg+".vpChoice", "", func(fr *frame, args []value) value {
		ps := fr.i.ps
		n := int(fr.conc(args[1]))
		if n <= 0 {
			panic(pathAbort{"empty choice"})
		}
		v := ps.fresh(goString(args[0]), "int", 64)
		ps.assume(sym{mkCmp("bvult", v, mkConst(uint64(n), 64))})
		for i := 0; i < n-1; i++ {
			if ps.branch(mkEq(v, mkConst(uint64(i), 64))) {
				return i
			}
		}
		return n - 1
	})
	reg(harnessPkg+".vpSymbolic", "", func(fr *frame, args []value) value { return true })
	reg(harnessPkg+".vpReverseMapOrder", "maps are iterated in the opposite order while on", func(fr *frame, args []value) value {
		fr.i.reverseMaps = args[0].(bool)
		return nil
	})
	reg(harnessPkg+".vpNativeOnly", "ignored by the engine (decided by the native replay only)", func(fr *frame, args []value) value { return nil })
	reg(harnessPkg+".vpSteps", "SSA instructions executed on this path so far", func(fr *frame, args []value) value {
		return int64(fr.i.ps.steps)
	})
	reg(harnessPkg+".vpAssume", "", func(fr *frame, args []value) value {
		fr.i.ps.assume(args[0])
		return nil
	})
	reg(harnessPkg+".vpAssert", "", func(fr *frame, args []value) value {
		fr.i.ps.assertProp(goString(args[0]), args[1])
		return nil
	})
	reg(harnessPkg+".vpReach", "", func(fr *frame, args []value) value {
		ps := fr.i.ps
		l := goString(args[0])
		ps.reached = append(ps.reached, l)
		ps.events = append(ps.events, "R:"+l)
		ps.evs = append(ps.evs, event{kind: 'R', label: l})
		return nil
	})
	reg(harnessPkg+".vpObserve", "", func(fr *frame, args []value) value {
		ps := fr.i.ps
		l := goString(args[0])
		vals, _ := args[1].([]value)
		cp := append([]value(nil), vals...)
		ps.events = append(ps.events, "O:"+l)
		ps.evs = append(ps.evs, event{kind: 'O', label: l, vals: cp})
		return nil
	})
	reg(harnessPkg+".vpReplace", "", func(fr *frame, args []value) value {
		if fr.i.replaced == nil {
			fr.i.replaced = map[string]value{}
		}
		name := goString(args[0])
		fn := args[1].(iface).v
		if f, ok := fn.(*ssa.Function); ok && f == nil {
			delete(fr.i.replaced, name)
			return true
		}
		fr.i.replaced[name] = fn
		return true
	})
	reg(harnessPkg+".vpCut", "", func(fr *frame, args []value) value {
		panic(pathAbort{"cut: " + goString(args[0])})
	})
	reg(harnessPkg+".vpConcretize", "", func(fr *frame, args []value) value {
		return int(fr.conc(args[0]))
	})
	reg(harnessPkg+".vpFreeze", "", func(fr *frame, args []value) value {
		ps := fr.i.ps
		if ps.monitor == nil {
			ps.monitor = newWriteMonitor(fr.i)
		}
		ps.monitor.freeze(args[1], goString(args[0]), map[interface{}]bool{})
		ps.monitor.enabled = true
		return nil
	})
	reg(harnessPkg+".vpFreezeGlobals", "", func(fr *frame, args []value) value {
		ps := fr.i.ps
		if ps.monitor == nil {
			ps.monitor = newWriteMonitor(fr.i)
		}
		seen := map[interface{}]bool{}
		for g, cell := range fr.i.globals {
			if g.Pkg != nil && g.Pkg.Pkg.Path() == harnessPkg && !strings.HasPrefix(g.Name(), "vp") && !strings.HasPrefix(g.Name(), "init$") {
				ps.monitor.freeze(cell, "global "+g.Name(), seen)
			}
		}
		for p, sm := range fr.i.syncMaps {
			_ = p
			sm.frozen = true
		}
		ps.monitor.enabled = true
		return nil
	})
	reg(harnessPkg+".vpAllowDollarKeys", "", func(fr *frame, args []value) value {
		ps := fr.i.ps
		if ps.monitor != nil {
			want := goString(args[0])
			ps.monitor.allowKey = func(root string, key value) bool {
				ks, ok := key.(string)
				return ok && root == want && strings.HasPrefix(ks, "$")
			}
		}
		return nil
	})
	reg(harnessPkg+".vpWrites", "", func(fr *frame, args []value) value {
		ps := fr.i.ps
		if ps.monitor == nil {
			return 0
		}
		n := 0
		for _, c := range ps.monitor.recs {
			n += c
		}
		return n
	})

	// ---- unicode/utf8 (verified models, byte-range comparisons) ----
	reg("unicode/utf8.DecodeRune", "byte-range model of UTF-8 decoding (the real code indexes a 256-entry table)", func(fr *frame, args []value) value {
		r, n := decodeRuneSym(fr, args[0].([]value))
		return tuple{r, n}
	})
	reg("unicode/utf8.DecodeRuneInString", "byte-range model of UTF-8 decoding", func(fr *frame, args []value) value {
		r, n := decodeRuneSym(fr, toSstr(args[0]).b)
		return tuple{r, n}
	})
	reg("unicode/utf8.RuneLen", "range model", func(fr *frame, args []value) value {
		r, ok := args[0].(sym)
		if !ok {
			return utf8.RuneLen(args[0].(int32))
		}
		return runeLenSym(fr, r.t)
	})
	reg("unicode/utf8.ValidString", "decoding loop over the byte-range model", func(fr *frame, args []value) value {
		return validUTF8(fr, toSstr(args[0]).b)
	})
	reg("unicode/utf8.Valid", "decoding loop over the byte-range model", func(fr *frame, args []value) value {
		return validUTF8(fr, args[0].([]value))
	})
	reg("unicode/utf8.RuneCountInString", "decoding loop over the byte-range model", func(fr *frame, args []value) value {
		p := toSstr(args[0]).b
		n := 0
		for len(p) > 0 {
			_, k := decodeRuneSym(fr, p)
			p = p[k:]
			n++
		}
		return n
	})
	reg("unicode/utf8.EncodeRune", "range model of UTF-8 encoding", func(fr *frame, args []value) value {
		p := args[0].([]value)
		var enc []value
		if r, ok := args[1].(sym); ok {
			enc = toSstr(encodeRuneSym(fr, r, tInt32)).b
		} else {
			enc = toSstr(string(args[1].(int32))).b
		}
		if len(p) < len(enc) {
			panic(targetRuntimeError("index out of range"))
		}
		copy(p, enc)
		return len(enc)
	})
	reg("unicode/utf8.AppendRune", "range model of UTF-8 encoding", func(fr *frame, args []value) value {
		p := args[0].([]value)
		var enc []value
		if r, ok := args[1].(sym); ok {
			enc = toSstr(encodeRuneSym(fr, r, tInt32)).b
		} else {
			enc = toSstr(string(args[1].(int32))).b
		}
		return append(p, enc...)
	})

	// ---- math/bits (compiler intrinsics in the real build) ----
	reg("math/bits.Len64", "direct bit-vector term", func(fr *frame, args []value) value {
		x, ok := args[0].(sym)
		if !ok {
			return bits.Len64(args[0].(uint64))
		}
		res := mkConst(0, 64)
		for k := 0; k < 64; k++ {
			res = mkIte(mkCmp("bvuge", x.t, mkConst(uint64(1)<<uint(k), 64)), mkConst(uint64(k+1), 64), res)
		}
		return mkValue(res, tInt)
	})
	reg("math/bits.Len", "direct bit-vector term", func(fr *frame, args []value) value {
		x, ok := args[0].(sym)
		if !ok {
			return bits.Len(args[0].(uint))
		}
		res := mkConst(0, 64)
		for k := 0; k < 64; k++ {
			res = mkIte(mkCmp("bvuge", x.t, mkConst(uint64(1)<<uint(k), 64)), mkConst(uint64(k+1), 64), res)
		}
		return mkValue(res, tInt)
	})
	reg("math/bits.LeadingZeros64", "direct bit-vector term", func(fr *frame, args []value) value {
		x, ok := args[0].(sym)
		if !ok {
			return bits.LeadingZeros64(args[0].(uint64))
		}
		res := mkConst(64, 64)
		for k := 0; k < 64; k++ {
			res = mkIte(mkCmp("bvuge", x.t, mkConst(uint64(1)<<uint(k), 64)), mkConst(uint64(63-k), 64), res)
		}
		return mkValue(res, tInt)
	})
	reg("math/bits.TrailingZeros64", "direct bit-vector term", func(fr *frame, args []value) value {
		x, ok := args[0].(sym)
		if !ok {
			return bits.TrailingZeros64(args[0].(uint64))
		}
		res := mkConst(64, 64)
		for k := 63; k >= 0; k-- {
			bit := mkEq(mkExtract(k, k, x.t), mkConst(1, 1))
			res = mkIte(bit, mkConst(uint64(k), 64), res)
		}
		return mkValue(res, tInt)
	})
	reg("math/bits.TrailingZeros", "direct bit-vector term", func(fr *frame, args []value) value {
		x, ok := args[0].(sym)
		if !ok {
			return bits.TrailingZeros(args[0].(uint))
		}
		res := mkConst(64, 64)
		for k := 63; k >= 0; k-- {
			bit := mkEq(mkExtract(k, k, x.t), mkConst(1, 1))
			res = mkIte(bit, mkConst(uint64(k), 64), res)
		}
		return mkValue(res, tInt)
	})
	reg("math/bits.Mul64", "128-bit bvmul", func(fr *frame, args []value) value {
		if !isSym(args[0]) && !isSym(args[1]) {
			hi, lo := bits.Mul64(args[0].(uint64), args[1].(uint64))
			return tuple{hi, lo}
		}
		x, y := toTerm(args[0]), toTerm(args[1])
		return tuple{mkValue(mkMulHi64(x, y), tUint64), mkValue(mkBin("bvmul", x, y), tUint64)}
	})
	reg("math/bits.Add64", "65-bit bvadd", func(fr *frame, args []value) value {
		if !isSym(args[0]) && !isSym(args[1]) && !isSym(args[2]) {
			s, c := bits.Add64(args[0].(uint64), args[1].(uint64), args[2].(uint64))
			return tuple{s, c}
		}
		x, y, c := toTerm(args[0]), toTerm(args[1]), toTerm(args[2])
		return tuple{mkValue(mkBin("bvadd", mkBin("bvadd", x, y), c), tUint64), mkValue(mkTern64("addc64", x, y, c), tUint64)}
	})
	reg("math/bits.Sub64", "65-bit bvsub", func(fr *frame, args []value) value {
		if !isSym(args[0]) && !isSym(args[1]) && !isSym(args[2]) {
			s, c := bits.Sub64(args[0].(uint64), args[1].(uint64), args[2].(uint64))
			return tuple{s, c}
		}
		x, y, c := toTerm(args[0]), toTerm(args[1]), toTerm(args[2])
		return tuple{mkValue(mkBin("bvsub", mkBin("bvsub", x, y), c), tUint64), mkValue(mkTern64("subb64", x, y, c), tUint64)}
	})
	reg("math/bits.Div64", "concrete only", func(fr *frame, args []value) value {
		for _, a := range args {
			if isSym(a) {
				unsupported("bits.Div64 on symbolic operands")
			}
		}
		if args[2].(uint64) == 0 || args[2].(uint64) <= args[0].(uint64) {
			panic(targetRuntimeError("integer divide by zero / overflow"))
		}
		q, r := bits.Div64(args[0].(uint64), args[1].(uint64), args[2].(uint64))
		return tuple{q, r}
	})

	// ---- decimal/internal/arith ----
	reg("github.com/ericlagergren/decimal/internal/arith.Length", "digit count by forking on x < 10^d (precision is concrete on every path)", func(fr *frame, args []value) value {
		x, ok := args[0].(sym)
		if !ok {
			v := args[0].(uint64)
			d := 1
			for v >= 10 {
				v /= 10
				d++
			}
			return d
		}
		p := uint64(10)
		for d := 1; d < 20; d++ {
			if fr.i.ps.branch(mkCmp("bvult", x.t, mkConst(p, 64))) {
				return d
			}
			p *= 10
		}
		return 20
	})

	// ---- math ----
	reg("math.Float64bits", "reinterpretation (concrete, or fp term for non-NaN)", func(fr *frame, args []value) value {
		if s, ok := args[0].(sym); ok {
			if s.t.op == "to_fp_bits" {
				return mkValue(s.t.args[0], tUint64)
			}
			// introduce bits b with to_fp(b) == f (exact for non-NaN values)
			ps := fr.i.ps
			if ps.branch(mkRaw("fp.isNaN", 0, s.t)) {
				return uint64(0x7ff8000000000001)
			}
			b := ps.fresh("f64bits", "aux", 64)
			ps.vars = ps.vars[:len(ps.vars)-1] // auxiliary: not a nondet input
			ps.cache = nil
			ps.sol.Send("(assert (= ((_ to_fp 11 53) " + b.name + ") " + smt(ps.subst(s.t)) + "))")
			return sym{b}
		}
		return math.Float64bits(args[0].(float64))
	})
	reg("math.Float64frombits", "reinterpretation", func(fr *frame, args []value) value {
		if s, ok := args[0].(sym); ok {
			return sym{mkRaw("to_fp_bits", wFloat, s.t)}
		}
		return math.Float64frombits(args[0].(uint64))
	})
	reg("math.IsNaN", "fp.isNaN", func(fr *frame, args []value) value {
		if s, ok := args[0].(sym); ok {
			return mkValue(mkRaw("fp.isNaN", 0, s.t), tBool)
		}
		return math.IsNaN(args[0].(float64))
	})
	reg("math.IsInf", "fp.isInfinite", func(fr *frame, args []value) value {
		if s, ok := args[0].(sym); ok {
			sign := fr.conc(args[1])
			inf := mkRaw("fp.isInfinite", 0, s.t)
			neg := mkRaw("fp.isNegative", 0, s.t)
			switch {
			case sign > 0:
				return mkValue(mkAnd(inf, mkNot(neg)), tBool)
			case sign < 0:
				return mkValue(mkAnd(inf, neg), tBool)
			}
			return mkValue(inf, tBool)
		}
		return math.IsInf(args[0].(float64), int(fr.conc(args[1])))
	})
	reg("math.Signbit", "fp.isNegative (non-NaN)", func(fr *frame, args []value) value {
		if s, ok := args[0].(sym); ok {
			if fr.i.ps.branch(mkRaw("fp.isNaN", 0, s.t)) {
				unsupported("Signbit of a symbolic NaN")
			}
			return mkValue(mkRaw("fp.isNegative", 0, s.t), tBool)
		}
		return math.Signbit(args[0].(float64))
	})
	reg("math.Copysign", "fp.abs / fp.neg (concrete sign operand)", func(fr *frame, args []value) value {
		if isSym(args[1]) {
			unsupported("math.Copysign with a symbolic sign operand")
		}
		neg := math.Signbit(args[1].(float64))
		if s, ok := args[0].(sym); ok {
			a := mkRaw("fp.abs", wFloat, s.t)
			if neg {
				return sym{mkRaw("fp.neg", wFloat, a)}
			}
			return sym{a}
		}
		if neg {
			return math.Copysign(args[0].(float64), -1)
		}
		return math.Copysign(args[0].(float64), 1)
	})
	reg("math.Abs", "fp.abs", func(fr *frame, args []value) value {
		if s, ok := args[0].(sym); ok {
			return sym{mkRaw("fp.abs", wFloat, s.t)}
		}
		return math.Abs(args[0].(float64))
	})
	concreteMath := func(name string, f func(float64) float64) {
		reg("math."+name, "concrete arguments only", func(fr *frame, args []value) value {
			if isSym(args[0]) {
				unsupported("math.%s on a symbolic float", name)
			}
			return f(args[0].(float64))
		})
	}
	concreteMath("Floor", math.Floor)
	concreteMath("Ceil", math.Ceil)
	concreteMath("Trunc", math.Trunc)
	concreteMath("Sqrt", math.Sqrt)
	concreteMath("Log", math.Log)
	concreteMath("Log2", math.Log2)
	concreteMath("Log10", math.Log10)
	concreteMath("Exp", math.Exp)
	reg("math.Pow", "concrete arguments only", func(fr *frame, args []value) value {
		if isSym(args[0]) || isSym(args[1]) {
			unsupported("math.Pow on symbolic floats")
		}
		return math.Pow(args[0].(float64), args[1].(float64))
	})
	reg("math.Pow10", "concrete arguments only", func(fr *frame, args []value) value {
		return math.Pow10(int(fr.conc(args[0])))
	})
	reg("math.Mod", "concrete arguments only", func(fr *frame, args []value) value {
		if isSym(args[0]) || isSym(args[1]) {
			unsupported("math.Mod on symbolic floats")
		}
		return math.Mod(args[0].(float64), args[1].(float64))
	})
	reg("math.Modf", "concrete arguments only", func(fr *frame, args []value) value {
		if isSym(args[0]) {
			unsupported("math.Modf on symbolic floats")
		}
		a, b := math.Modf(args[0].(float64))
		return tuple{a, b}
	})
	reg("math.Frexp", "concrete arguments only", func(fr *frame, args []value) value {
		if isSym(args[0]) {
			unsupported("math.Frexp on symbolic floats")
		}
		a, b := math.Frexp(args[0].(float64))
		return tuple{a, b}
	})
	reg("math.Inf", "", func(fr *frame, args []value) value { return math.Inf(int(fr.conc(args[0]))) })
	reg("math.NaN", "", func(fr *frame, args []value) value { return math.NaN() })

	// ---- internal/bytealg & friends: naive loops per the documented contract ----
	idxByte := func(fr *frame, s []value, c value) value {
		for i, b := range s {
			if isSym(b) || isSym(c) {
				if fr.i.ps.branch(mkEq(toTerm(b), toTerm(c))) {
					return i
				}
			} else if b.(byte) == c.(byte) {
				return i
			}
		}
		return -1
	}
	reg("internal/bytealg.IndexByte", "naive loop", func(fr *frame, args []value) value { return idxByte(fr, args[0].([]value), args[1]) })
	reg("internal/bytealg.IndexByteString", "naive loop", func(fr *frame, args []value) value {
		return idxByte(fr, toSstr(args[0]).b, args[1])
	})
	reg("bytes.IndexByte", "naive loop", func(fr *frame, args []value) value { return idxByte(fr, args[0].([]value), args[1]) })
	reg("strings.IndexByte", "naive loop", func(fr *frame, args []value) value { return idxByte(fr, toSstr(args[0]).b, args[1]) })
	index := func(fr *frame, s, sub []value) value {
		for i := 0; i+len(sub) <= len(s); i++ {
			c := sstrEqTerm(sstr{s[i : i+len(sub)]}, sstr{sub})
			if fr.i.ps.branch(c) {
				return i
			}
		}
		return -1
	}
	reg("strings.Index", "naive first-occurrence loop", func(fr *frame, args []value) value {
		return index(fr, toSstr(args[0]).b, toSstr(args[1]).b)
	})
	reg("internal/bytealg.IndexString", "naive first-occurrence loop", func(fr *frame, args []value) value {
		return index(fr, toSstr(args[0]).b, toSstr(args[1]).b)
	})
	reg("internal/bytealg.Index", "naive first-occurrence loop", func(fr *frame, args []value) value {
		return index(fr, args[0].([]value), args[1].([]value))
	})
	reg("bytes.Index", "naive first-occurrence loop", func(fr *frame, args []value) value {
		return index(fr, args[0].([]value), args[1].([]value))
	})
	reg("bytes.Equal", "byte-wise equality term", func(fr *frame, args []value) value {
		return mkValue(sstrEqTerm(sstr{args[0].([]value)}, sstr{args[1].([]value)}), tBool)
	})
	reg("internal/bytealg.Equal", "byte-wise equality term", func(fr *frame, args []value) value {
		return mkValue(sstrEqTerm(sstr{args[0].([]value)}, sstr{args[1].([]value)}), tBool)
	})
	cmp := func(fr *frame, a, b []value) value {
		lt := sstrLessTerm(sstr{a}, sstr{b}, false)
		if fr.i.ps.branch(lt) {
			return -1
		}
		if fr.i.ps.branch(sstrEqTerm(sstr{a}, sstr{b})) {
			return 0
		}
		return 1
	}
	reg("internal/bytealg.Compare", "lexicographic comparison", func(fr *frame, args []value) value {
		return cmp(fr, args[0].([]value), args[1].([]value))
	})
	reg("internal/bytealg.CompareString", "lexicographic comparison", func(fr *frame, args []value) value {
		return cmp(fr, toSstr(args[0]).b, toSstr(args[1]).b)
	})
	count := func(fr *frame, s []value, c value) value {
		n := 0
		for _, b := range s {
			if isSym(b) || isSym(c) {
				if fr.i.ps.branch(mkEq(toTerm(b), toTerm(c))) {
					n++
				}
			} else if b.(byte) == c.(byte) {
				n++
			}
		}
		return n
	}
	reg("internal/bytealg.Count", "naive loop", func(fr *frame, args []value) value { return count(fr, args[0].([]value), args[1]) })
	reg("internal/bytealg.CountString", "naive loop", func(fr *frame, args []value) value {
		return count(fr, toSstr(args[0]).b, args[1])
	})
	reg("internal/bytealg.MakeNoZero", "", func(fr *frame, args []value) value {
		n := fr.conc(args[0])
		s := make([]value, n)
		for i := range s {
			s[i] = byte(0)
		}
		return s
	})
	reg("internal/stringslite.Index", "naive first-occurrence loop", func(fr *frame, args []value) value {
		return index(fr, toSstr(args[0]).b, toSstr(args[1]).b)
	})
	reg("internal/stringslite.IndexByte", "naive loop", func(fr *frame, args []value) value {
		return idxByte(fr, toSstr(args[0]).b, args[1])
	})
	reg("strings.Count", "", nil)
	delete(externals, "strings.Count")
	delete(externals, "strings.EqualFold")
	delete(externals, "strings.Replace")
	delete(externals, "strings.ToLower")
	delete(externals, "strconv.Atoi")
	delete(externals, "strconv.Itoa")
	delete(externals, "strconv.FormatFloat")
	delete(externals, "sort.Ints")
	delete(externals, "sort.Strings")
	delete(externals, "sort.Float64s")
	delete(externals, "os.Exit")
	delete(externals, "time.Sleep")
	reg("strconv.FormatFloat", "host strconv on concrete floats", func(fr *frame, args []value) value {
		if isSym(args[0]) {
			unsupported("FormatFloat of a symbolic float")
		}
		return hostFormatFloat(args[0].(float64), args[1].(byte), int(fr.conc(args[2])), int(fr.conc(args[3])))
	})
	reg("strconv.ParseFloat", "host strconv on concrete strings", func(fr *frame, args []value) value {
		s, ok := args[0].(string)
		if !ok {
			unsupported("ParseFloat of a symbolic string")
		}
		f, err := hostParseFloat(s, int(fr.conc(args[1])))
		if err != nil {
			return tuple{f, fr.newError(err.Error())}
		}
		return tuple{f, iface{}}
	})

	// ---- strings.Builder (uses unsafe) ----
	sbBuf := func(args []value) *value {
		p := args[0].(*value)
		s := (*p).(structure)
		return &s[1]
	}
	reg("(*strings.Builder).Write", "byte-slice model", func(fr *frame, args []value) value {
		b := sbBuf(args)
		cur, _ := (*b).([]value)
		add := args[1].([]value)
		*b = append(append([]value(nil), cur...), add...)
		return tuple{len(add), iface{}}
	})
	reg("(*strings.Builder).WriteString", "byte-slice model", func(fr *frame, args []value) value {
		b := sbBuf(args)
		cur, _ := (*b).([]value)
		add := toSstr(args[1]).b
		*b = append(append([]value(nil), cur...), add...)
		return tuple{len(add), iface{}}
	})
	reg("(*strings.Builder).WriteByte", "byte-slice model", func(fr *frame, args []value) value {
		b := sbBuf(args)
		cur, _ := (*b).([]value)
		*b = append(append([]value(nil), cur...), args[1])
		return iface{}
	})
	reg("(*strings.Builder).WriteRune", "byte-slice model", func(fr *frame, args []value) value {
		b := sbBuf(args)
		cur, _ := (*b).([]value)
		var enc []value
		if r, ok := args[1].(sym); ok {
			enc = toSstr(encodeRuneSym(fr, r, tInt32)).b
		} else {
			enc = toSstr(string(args[1].(int32))).b
		}
		*b = append(append([]value(nil), cur...), enc...)
		return tuple{len(enc), iface{}}
	})
	reg("(*strings.Builder).String", "byte-slice model", func(fr *frame, args []value) value {
		b := sbBuf(args)
		cur, _ := (*b).([]value)
		return bytesToStringValue(cur)
	})
	reg("(*strings.Builder).Len", "byte-slice model", func(fr *frame, args []value) value {
		b := sbBuf(args)
		cur, _ := (*b).([]value)
		return len(cur)
	})
	reg("(*strings.Builder).Grow", "byte-slice model", func(fr *frame, args []value) value {
		if fr.conc(args[1]) < 0 {
			panic(targetPanic{iface{tString, "strings.Builder.Grow: negative count"}})
		}
		if n := fr.conc(args[1]); n > 1<<24 {
			if n > 1<<47 {
				// beyond the runtime's maximum allocation: the real program panics in growslice
				panic(targetRuntimeError("growslice: len out of range"))
			}
			unsupported("strings.Builder.Grow(%d): allocation too large for the engine", n)
		}
		return nil
	})
	reg("(*strings.Builder).Reset", "byte-slice model", func(fr *frame, args []value) value {
		*sbBuf(args) = []value(nil)
		return nil
	})
	reg("(*strings.Builder).Cap", "byte-slice model", func(fr *frame, args []value) value {
		cur, _ := (*sbBuf(args)).([]value)
		return cap(cur)
	})
	reg("internal/abi.NoEscape", "", func(fr *frame, args []value) value { return args[0] })
	reg("internal/abi.Escape", "", func(fr *frame, args []value) value { return args[0] })
	reg("strings.Clone", "", func(fr *frame, args []value) value { return args[0] })
	reg("internal/stringslite.Clone", "", func(fr *frame, args []value) value { return args[0] })
	reg("unique.Make", "", nil)
	delete(externals, "unique.Make")

	// ---- sync (single-threaded models) ----
	nop := func(fr *frame, args []value) value { return nil }
	for _, n := range []string{"(*sync.Mutex).Lock", "(*sync.Mutex).Unlock", "(*sync.RWMutex).Lock", "(*sync.RWMutex).Unlock", "(*sync.RWMutex).RLock", "(*sync.RWMutex).RUnlock", "(*sync.WaitGroup).Add", "(*sync.WaitGroup).Done", "(*sync.WaitGroup).Wait", "runtime.KeepAlive", "runtime.SetFinalizer", "runtime.Gosched"} {
		reg(n, "single-threaded no-op", nop)
	}
	reg("(*sync.Mutex).TryLock", "single-threaded model", func(fr *frame, args []value) value { return true })
	reg("(*sync.Once).Do", "single-threaded model (done flag in field 0)", func(fr *frame, args []value) value {
		p := args[0].(*value)
		s := (*p).(structure)
		key := &s[0]
		if fr.i.onceDone == nil {
			fr.i.onceDone = map[*value]bool{}
		}
		if fr.i.onceDone[key] {
			return nil
		}
		fr.i.onceDone[key] = true
		call(fr.i, fr, token.NoPos, args[1], nil)
		return nil
	})
	// sync.Pool: Get may return any item Put earlier or New(); the model takes the most
	// recently Put item when there is one (what the runtime does on one goroutine without a
	// collection in between) - the choice that lets state left in a pooled object show
	reg("(*sync.Pool).Put", "LIFO list per pool (per path)", func(fr *frame, args []value) value {
		p := args[0].(*value)
		if it, ok := args[1].(iface); ok && it.t == nil {
			return nil
		}
		if fr.i.pools == nil {
			fr.i.pools = map[*value][]value{}
		}
		fr.i.pools[p] = append(fr.i.pools[p], args[1])
		return nil
	})
	reg("(*sync.Pool).Get", "most recently Put item, else New()", func(fr *frame, args []value) value {
		p := args[0].(*value)
		if l := fr.i.pools[p]; len(l) > 0 {
			x := l[len(l)-1]
			fr.i.pools[p] = l[:len(l)-1]
			return x
		}
		s := (*p).(structure)
		nf := s[len(s)-1]
		if f, ok := nf.(*ssa.Function); ok && f == nil {
			return iface{}
		}
		return call(fr.i, fr, token.NoPos, nf, nil)
	})
	reg("(*sync/atomic.Value).Store", "plain cell (monitored like a store)", func(fr *frame, args []value) value {
		p := args[0].(*value)
		s := (*p).(structure)
		if ps := fr.i.ps; ps != nil && ps.monitor != nil && ps.monitor.enabled {
			if root, ok := ps.monitor.cells[p]; ok {
				ps.monitor.recs["atomic.Value.Store to frozen "+root+" in "+callerName(fr)]++
			} else if root, ok := ps.monitor.cells[&s[0]]; ok {
				ps.monitor.recs["atomic.Value.Store to frozen "+root+" in "+callerName(fr)]++
			}
		}
		s[0] = args[1]
		return nil
	})
	reg("(*sync/atomic.Value).Load", "plain cell", func(fr *frame, args []value) value {
		p := args[0].(*value)
		s := (*p).(structure)
		if it, ok := s[0].(iface); ok {
			return it
		}
		return iface{}
	})
	// smFind locates key k (possibly symbolic) among the stored keys by solver-decided comparisons.
	smFind := func(fr *frame, m *syncMapModel, k iface) int {
		for i := range m.keys {
			mk := m.keys[i].(iface)
			if !sameType(mk.t, k.t) {
				continue
			}
			if la, lb := strLenOf(mk.v), strLenOf(k.v); la >= 0 && lb >= 0 && la != lb {
				continue
			}
			c := equalsSym(k.t, mk.v, k.v)
			if c.isConst() {
				if c.val != 0 {
					return i
				}
				continue
			}
			if fr.i.ps == nil {
				unsupported("sync.Map with a symbolic key outside a path")
			}
			if fr.i.ps.branch(c) {
				return i
			}
		}
		return -1
	}
	smNoteWrite := func(fr *frame, m *syncMapModel, what string) {
		if m.frozen {
			if ps := fr.i.ps; ps != nil && ps.monitor != nil {
				ps.monitor.recs["sync.Map."+what+" on a package-level map in "+callerName(fr)]++
			}
		}
	}
	reg("(*sync.Map).Store", "association table", func(fr *frame, args []value) value {
		m := fr.i.syncMap(args[0].(*value))
		smNoteWrite(fr, m, "Store")
		k := args[1].(iface)
		if i := smFind(fr, m, k); i >= 0 {
			m.vals[i] = args[2]
			return nil
		}
		m.keys = append(m.keys, k)
		m.vals = append(m.vals, args[2])
		return nil
	})
	reg("(*sync.Map).LoadOrStore", "association table", func(fr *frame, args []value) value {
		m := fr.i.syncMap(args[0].(*value))
		k := args[1].(iface)
		if i := smFind(fr, m, k); i >= 0 {
			return tuple{m.vals[i], true}
		}
		smNoteWrite(fr, m, "LoadOrStore")
		m.keys = append(m.keys, k)
		m.vals = append(m.vals, args[2])
		return tuple{args[2], false}
	})
	reg("(*sync.Map).LoadAndDelete", "association table", func(fr *frame, args []value) value {
		m := fr.i.syncMap(args[0].(*value))
		k := args[1].(iface)
		if i := smFind(fr, m, k); i >= 0 {
			smNoteWrite(fr, m, "LoadAndDelete")
			v := m.vals[i]
			m.keys = append(m.keys[:i:i], m.keys[i+1:]...)
			m.vals = append(m.vals[:i:i], m.vals[i+1:]...)
			return tuple{v, true}
		}
		return tuple{iface{}, false}
	})
	reg("(*sync.Map).Swap", "association table", func(fr *frame, args []value) value {
		m := fr.i.syncMap(args[0].(*value))
		smNoteWrite(fr, m, "Swap")
		k := args[1].(iface)
		if i := smFind(fr, m, k); i >= 0 {
			old := m.vals[i]
			m.vals[i] = args[2]
			return tuple{old, true}
		}
		m.keys = append(m.keys, k)
		m.vals = append(m.vals, args[2])
		return tuple{iface{}, false}
	})
	reg("(*sync.Map).Range", "association table (insertion order)", func(fr *frame, args []value) value {
		m := fr.i.syncMap(args[0].(*value))
		keys := append([]value(nil), m.keys...)
		vals := append([]value(nil), m.vals...)
		for i := range keys {
			r := call(fr.i, fr, token.NoPos, args[1], []value{keys[i], vals[i]})
			if b, ok := r.(bool); ok && !b {
				break
			}
		}
		return nil
	})
	reg("(*sync.Map).Load", "association table", func(fr *frame, args []value) value {
		m := fr.i.syncMap(args[0].(*value))
		k := args[1].(iface)
		if i := smFind(fr, m, k); i >= 0 {
			return tuple{m.vals[i], true}
		}
		return tuple{iface{}, false}
	})
	reg("(*sync.Map).Delete", "association table", func(fr *frame, args []value) value {
		m := fr.i.syncMap(args[0].(*value))
		k := args[1].(iface)
		if i := smFind(fr, m, k); i >= 0 {
			smNoteWrite(fr, m, "Delete")
			m.keys = append(m.keys[:i:i], m.keys[i+1:]...)
			m.vals = append(m.vals[:i:i], m.vals[i+1:]...)
		}
		return nil
	})
	for _, n := range []string{"AddInt32", "AddInt64", "AddUint32", "AddUint64"} {
		n := n
		reg("sync/atomic."+n, "plain add", func(fr *frame, args []value) value {
			p := args[0].(*value)
			*p = binop(token.ADD, nil, *p, args[1])
			return *p
		})
	}
	for _, n := range []string{"LoadInt32", "LoadInt64", "LoadUint32", "LoadUint64", "LoadPointer", "LoadUintptr"} {
		reg("sync/atomic."+n, "plain load", func(fr *frame, args []value) value { return *args[0].(*value) })
	}
	for _, n := range []string{"StoreInt32", "StoreInt64", "StoreUint32", "StoreUint64", "StorePointer", "StoreUintptr"} {
		reg("sync/atomic."+n, "plain store", func(fr *frame, args []value) value { *args[0].(*value) = args[1]; return nil })
	}
	for _, n := range []string{"CompareAndSwapInt32", "CompareAndSwapInt64", "CompareAndSwapUint32", "CompareAndSwapUint64"} {
		reg("sync/atomic."+n, "plain cas", func(fr *frame, args []value) value {
			p := args[0].(*value)
			if *p == args[1] {
				*p = args[2]
				return true
			}
			return false
		})
	}

	// ---- time: clock primitives ----
	reg("time.runtimeNano", "monotonic clock = 0", func(fr *frame, args []value) value { return int64(0) })
	reg("time.now", "wall clock fixed at 2026-01-02 03:04:05 UTC (harnesses that study the clock replace funNow's callee)", func(fr *frame, args []value) value {
		return tuple{int64(1767323045), int32(0), int64(1)}
	})
	reg("time.initLocal", "time.Local = UTC", func(fr *frame, args []value) value {
		return nil
	})
	reg("time.loadLocation", "zone database model: Asia/Shanghai = fixed +08:00, Etc/GMT+5 style names unsupported, every other name is unknown", func(fr *frame, args []value) value {
		name, ok := args[0].(string)
		if !ok {
			unsupported("LoadLocation with a symbolic zone name")
		}
		tp := fr.i.prog.ImportedPackage("time")
		if name == "Asia/Shanghai" {
			loc := call(fr.i, fr, token.NoPos, tp.Func("FixedZone"), []value{name, 8 * 3600})
			return tuple{loc, iface{}}
		}
		var nilLoc *value
		return tuple{nilLoc, fr.newError("unknown time zone " + name)}
	})
	// ---- errors / runtime bits that cannot be interpreted ----
	reg("runtime.Callers", "", func(fr *frame, args []value) value { return 0 })
	reg("runtime.Caller", "", func(fr *frame, args []value) value { return tuple{uintptr(0), "", 0, false} })
	reg("runtime.GOMAXPROCS", "", func(fr *frame, args []value) value { return 1 })
	reg("runtime.NumCPU", "", func(fr *frame, args []value) value { return 1 })
	reg("os.Getenv", "", func(fr *frame, args []value) value { return "" })
	reg("internal/godebug.(*Setting).Value", "", func(fr *frame, args []value) value { return "" })
	reg("(*internal/godebug.Setting).Value", "", func(fr *frame, args []value) value { return "" })
	reg("(*internal/godebug.Setting).IncNonDefault", "", nop)
	reg("internal/godebug.New", "", func(fr *frame, args []value) value {
		var v value = structure{}
		return &v
	})
}

func strLenOf(v value) int {
	switch x := v.(type) {
	case string:
		return len(x)
	case sstr:
		return len(x.b)
	}
	return -1
}

type syncMapModel struct {
	keys   []value
	vals   []value
	frozen bool
}

func (i *interpreter) syncMap(p *value) *syncMapModel {
	m := i.syncMaps[p]
	if m == nil {
		m = &syncMapModel{}
		i.syncMaps[p] = m
	}
	return m
}

func callerName(fr *frame) string {
	if fr != nil && fr.caller != nil {
		return fr.caller.fn.String()
	}
	return "?"
}

// newError builds an error value (errors.errorString) in the target.
func (fr *frame) newError(msg value) value {
	return call(fr.i, fr, token.NoPos, fr.i.prog.ImportedPackage("errors").Func("New"), []value{msg})
}

// ---- UTF-8 models ----

func bconst(c int) *Term { return mkConst(uint64(c), 8) }

func decodeRuneSym(fr *frame, p []value) (value, int) {
	n := len(p)
	const RuneError = int32(0xFFFD)
	if n < 1 {
		return RuneError, 0
	}
	anySym := false
	for i := 0; i < n && i < 4; i++ {
		if isSym(p[i]) {
			anySym = true
		}
	}
	if !anySym {
		var buf []byte
		for i := 0; i < n && i < 4; i++ {
			buf = append(buf, p[i].(byte))
		}
		r, sz := utf8.DecodeRune(buf)
		return int32(r), sz
	}
	ps := fr.i.ps
	b0 := toTerm(p[0])
	z32 := func(b *Term) *Term { return mkExtend(false, 24, b) }
	if ps.branch(mkCmp("bvult", b0, bconst(0x80))) {
		return mkValue(z32(b0), tInt32), 1
	}
	if ps.branch(mkOr(mkCmp("bvult", b0, bconst(0xC2)), mkCmp("bvugt", b0, bconst(0xF4)))) {
		return RuneError, 1
	}
	if n < 2 {
		return RuneError, 1
	}
	b1 := toTerm(p[1])
	cont := func(b *Term) *Term { return mkAnd(mkCmp("bvuge", b, bconst(0x80)), mkCmp("bvule", b, bconst(0xBF))) }
	msk := func(b *Term, m int) *Term { return mkBin("bvand", z32(b), mkConst(uint64(m), 32)) }
	shl := func(t *Term, k int) *Term { return mkBin("bvshl", t, mkConst(uint64(k), 32)) }
	if ps.branch(mkCmp("bvule", b0, bconst(0xDF))) {
		if !ps.branch(cont(b1)) {
			return RuneError, 1
		}
		return mkValue(mkBin("bvor", shl(msk(b0, 0x1F), 6), msk(b1, 0x3F)), tInt32), 2
	}
	if ps.branch(mkCmp("bvule", b0, bconst(0xEF))) {
		acc := mkAnd(mkIte(mkEq(b0, bconst(0xE0)), mkCmp("bvuge", b1, bconst(0xA0)), mkCmp("bvuge", b1, bconst(0x80))),
			mkIte(mkEq(b0, bconst(0xED)), mkCmp("bvule", b1, bconst(0x9F)), mkCmp("bvule", b1, bconst(0xBF))))
		if !ps.branch(acc) {
			return RuneError, 1
		}
		if n < 3 {
			return RuneError, 1
		}
		b2 := toTerm(p[2])
		if !ps.branch(cont(b2)) {
			return RuneError, 1
		}
		return mkValue(mkBin("bvor", shl(msk(b0, 0x0F), 12), mkBin("bvor", shl(msk(b1, 0x3F), 6), msk(b2, 0x3F))), tInt32), 3
	}
	acc := mkAnd(mkIte(mkEq(b0, bconst(0xF0)), mkCmp("bvuge", b1, bconst(0x90)), mkCmp("bvuge", b1, bconst(0x80))),
		mkIte(mkEq(b0, bconst(0xF4)), mkCmp("bvule", b1, bconst(0x8F)), mkCmp("bvule", b1, bconst(0xBF))))
	if !ps.branch(acc) {
		return RuneError, 1
	}
	if n < 3 {
		return RuneError, 1
	}
	b2 := toTerm(p[2])
	if !ps.branch(cont(b2)) {
		return RuneError, 1
	}
	if n < 4 {
		return RuneError, 1
	}
	b3 := toTerm(p[3])
	if !ps.branch(cont(b3)) {
		return RuneError, 1
	}
	return mkValue(mkBin("bvor", shl(msk(b0, 0x07), 18), mkBin("bvor", shl(msk(b1, 0x3F), 12), mkBin("bvor", shl(msk(b2, 0x3F), 6), msk(b3, 0x3F)))), tInt32), 4
}

func validUTF8(fr *frame, p []value) value {
	for len(p) > 0 {
		r, n := decodeRuneSym(fr, p)
		if n == 1 {
			// RuneError with width 1 means invalid (a literal U+FFFD is 3 bytes)
			if rc, ok := r.(int32); ok && rc == 0xFFFD {
				return false
			}
		}
		p = p[n:]
	}
	return true
}

func runeLenSym(fr *frame, r *Term) value {
	ps := fr.i.ps
	c := func(v int) *Term { return mkConst(uint64(v), 32) }
	switch {
	case ps.branch(mkCmp("bvslt", r, c(0))):
		return -1
	case ps.branch(mkCmp("bvslt", r, c(0x80))):
		return 1
	case ps.branch(mkCmp("bvslt", r, c(0x800))):
		return 2
	case ps.branch(mkAnd(mkCmp("bvsge", r, c(0xD800)), mkCmp("bvsle", r, c(0xDFFF)))):
		return -1
	case ps.branch(mkCmp("bvslt", r, c(0x10000))):
		return 3
	case ps.branch(mkCmp("bvsle", r, c(0x10FFFF))):
		return 4
	}
	return -1
}

// encodeRuneSym implements string(rune) / EncodeRune for a symbolic code point
// (of static integer type tsrc).
func encodeRuneSym(fr *frame, x sym, tsrc types.Type) value {
	_, signed, _ := basicInfo(tsrc)
	r64 := mkResize(x.t, 64, signed)
	ps := fr.i.ps
	c := func(v int64) *Term { return mkConst(uint64(v), 64) }
	b8 := func(t *Term) value { return mkValue(mkExtract(7, 0, t), tUint8) }
	or := func(t *Term, k int64) *Term { return mkBin("bvor", t, c(k)) }
	and := func(t *Term, k int64) *Term { return mkBin("bvand", t, c(k)) }
	shr := func(t *Term, k int64) *Term { return mkBin("bvlshr", t, c(k)) }
	bad := sstr{[]value{byte(0xEF), byte(0xBF), byte(0xBD)}}.norm()
	switch {
	case ps.branch(mkOr(mkCmp("bvslt", r64, c(0)), mkCmp("bvsgt", r64, c(0x10FFFF)))):
		return bad
	case ps.branch(mkCmp("bvslt", r64, c(0x80))):
		return sstr{[]value{b8(r64)}}.norm()
	case ps.branch(mkCmp("bvslt", r64, c(0x800))):
		return sstr{[]value{b8(or(shr(r64, 6), 0xC0)), b8(or(and(r64, 0x3F), 0x80))}}.norm()
	case ps.branch(mkAnd(mkCmp("bvsge", r64, c(0xD800)), mkCmp("bvsle", r64, c(0xDFFF)))):
		return bad
	case ps.branch(mkCmp("bvslt", r64, c(0x10000))):
		return sstr{[]value{b8(or(shr(r64, 12), 0xE0)), b8(or(and(shr(r64, 6), 0x3F), 0x80)), b8(or(and(r64, 0x3F), 0x80))}}.norm()
	}
	return sstr{[]value{b8(or(shr(r64, 18), 0xF0)), b8(or(and(shr(r64, 12), 0x3F), 0x80)), b8(or(and(shr(r64, 6), 0x3F), 0x80)), b8(or(and(r64, 0x3F), 0x80))}}.norm()
}
