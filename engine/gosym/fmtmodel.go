package interp

// A small model of fmt.Sprintf / Errorf / Sprint and of the few other
// reflection-heavy library entry points the target calls.

import (
	"fmt"
	"go/token"
	"go/types"
	"sort"
	"strconv"
	"strings"

	"golang.org/x/tools/go/ssa"
)

func hostFormatFloat(f float64, fmtc byte, prec, bitSize int) string {
	return strconv.FormatFloat(f, fmtc, prec, bitSize)
}
func hostParseFloat(s string, bitSize int) (float64, error) { return strconv.ParseFloat(s, bitSize) }

func init() {
	reg("fmt.Sprintf", "mini formatter: %d %s %v %q %T %c %x %f %% on basic kinds, error/Stringer values via their methods", func(fr *frame, args []value) value {
		return fr.sprintf(args[0], args[1])
	})
	reg("fmt.Errorf", "mini formatter (see fmt.Sprintf); %w treated as %v", func(fr *frame, args []value) value {
		return fr.newError(fr.sprintf(args[0], args[1]))
	})
	reg("fmt.Sprint", "mini formatter", func(fr *frame, args []value) value {
		var out []value
		vs, _ := args[0].([]value)
		prevString := true
		for k, a := range vs {
			s, isStr := ifaceString(a)
			if k > 0 && !isStr && !prevString {
				out = append(out, byte(' '))
			}
			prevString = isStr
			if isStr {
				out = append(out, toSstr(s).b...)
			} else {
				out = append(out, toSstr(fr.formatV(a, 'v')).b...)
			}
		}
		return sstr{out}.norm()
	})
	reg("fmt.Sprintln", "mini formatter", func(fr *frame, args []value) value {
		var out []value
		vs, _ := args[0].([]value)
		for k, a := range vs {
			if k > 0 {
				out = append(out, byte(' '))
			}
			out = append(out, toSstr(fr.formatV(a, 'v')).b...)
		}
		out = append(out, byte('\n'))
		return sstr{out}.norm()
	})
	for _, n := range []string{"fmt.Println", "fmt.Printf", "fmt.Print"} {
		reg(n, "output discarded", func(fr *frame, args []value) value { return tuple{0, iface{}} })
	}
	reg("encoding/json.Marshal", "only nil, strings, numbers, bools and slices of those", func(fr *frame, args []value) value {
		s := fr.jsonValue(args[0])
		return tuple{append([]value(nil), toSstr(s).b...), iface{}}
	})
	reg("strconv.Itoa", "host strconv on concrete ints; symbolic ints run the real formatBits", func(fr *frame, args []value) value {
		if s, ok := args[0].(sym); ok {
			return fr.itoaSym(s.t)
		}
		return strconv.Itoa(args[0].(int))
	})
	reg("strconv.Atoi", "real strconv code (symbolic digits fork per class)", nil)
	delete(externals, "strconv.Atoi")
}

// itoaSym formats a symbolic int by forking on sign and digit count and
// producing symbolic digit bytes.
func (fr *frame) itoaSym(t *Term) value {
	ps := fr.i.ps
	neg := ps.branch(mkCmp("bvslt", t, mkConst(0, 64)))
	u := t
	if neg {
		u = mkUn("bvneg", t)
	}
	nd := 20
	p := uint64(10)
	for d := 1; d < 20; d++ {
		if ps.branch(mkCmp("bvult", u, mkConst(p, 64))) {
			nd = d
			break
		}
		p *= 10
	}
	digits := make([]value, nd)
	x := u
	for k := nd - 1; k >= 0; k-- {
		dg := mkBin("bvurem", x, mkConst(10, 64))
		digits[k] = mkValue(mkBin("bvadd", mkExtract(7, 0, dg), mkConst('0', 8)), tUint8)
		x = mkBin("bvudiv", x, mkConst(10, 64))
	}
	if neg {
		digits = append([]value{byte('-')}, digits...)
	}
	return sstr{digits}.norm()
}

func (fr *frame) sprintf(format value, argv value) value {
	f, ok := format.(string)
	if !ok {
		unsupported("fmt with a symbolic format string")
	}
	args, _ := argv.([]value)
	var out []value
	ai := 0
	for i := 0; i < len(f); i++ {
		c := f[i]
		if c != '%' {
			out = append(out, c)
			continue
		}
		i++
		if i >= len(f) {
			out = append(out, toSstr("%!(NOVERB)").b...)
			break
		}
		verb := f[i]
		if verb == '%' {
			out = append(out, byte('%'))
			continue
		}
		// flags/width/precision: only "%.Nf" and "%0Nd" style are not needed by the target -> unsupported
		if !strings.ContainsRune("dsvqTcxXfgwtU", rune(verb)) {
			unsupported("fmt verb %%%c (flags/width not modelled) in %q", verb, f)
		}
		if ai >= len(args) {
			out = append(out, toSstr("%!"+string(verb)+"(MISSING)").b...)
			continue
		}
		a := args[ai]
		ai++
		out = append(out, toSstr(fr.formatV(a, verb)).b...)
	}
	if ai < len(args) {
		unsupported("fmt: extra arguments")
	}
	return sstr{out}.norm()
}

func typeString(t types.Type) string {
	if t == nil {
		return "<nil>"
	}
	return types.TypeString(t, func(p *types.Package) string { return p.Name() })
}

// formatV renders one operand (an interface value) for the given verb.
func (fr *frame) formatV(a value, verb byte) value {
	it, ok := a.(iface)
	if !ok {
		panic(engineBug{fmt.Sprintf("fmt operand %T", a)})
	}
	// fmt does not detect cycles through maps, slices and interfaces: a value that
	// contains itself recurses until the goroutine stack is exhausted (fatal error)
	fr.i.fmtDepth++
	defer func() { fr.i.fmtDepth-- }()
	if fr.i.fmtDepth > 200 {
		fr.i.fmtDepth = 0
		panic(targetFatal("stack overflow (fmt walking a value that contains itself)"))
	}
	if it.t == rtypeType {
		return typeString(it.v.(rtype).t)
	}
	if verb == 'T' {
		s := typeString(it.t)
		s = strings.ReplaceAll(s, "interface{}", "interface {}")
		return s
	}
	if it.t == nil {
		if verb == 'v' || verb == 's' || verb == 'd' {
			if verb == 'v' {
				return "<nil>"
			}
			return "%!" + string(verb) + "(<nil>)"
		}
		return "%!" + string(verb) + "(<nil>)"
	}
	// error / Stringer (only for verbs that use them)
	if verb == 'v' || verb == 's' || verb == 'q' || verb == 'w' {
		if isDecimalBigPtr(it.t) && verb != 'q' {
			if p, ok := it.v.(*value); ok && p == nil {
				return "<nil>"
			}
			return fr.callMethod(it, "String")
		}
		if m := fr.findMethod(it.t, "Error"); m != nil && isStringMethod(m) {
			if p, ok := it.v.(*value); ok && p == nil {
				return "<nil>"
			}
			s := call(fr.i, fr, token.NoPos, m, []value{it.v})
			if verb == 'q' {
				return quoteValue(s)
			}
			return s
		}
		if m := fr.findMethod(it.t, "String"); m != nil && isStringMethod(m) {
			if p, ok := it.v.(*value); ok && p == nil {
				return "<nil>"
			}
			s := call(fr.i, fr, token.NoPos, m, []value{it.v})
			if verb == 'q' {
				return quoteValue(s)
			}
			return s
		}
	}
	return fr.formatPlain(it.v, it.t, verb, 0)
}

func isDecimalBigPtr(t types.Type) bool {
	p, ok := t.(*types.Pointer)
	if !ok {
		return false
	}
	n, ok := p.Elem().(*types.Named)
	return ok && n.Obj().Name() == "Big" && n.Obj().Pkg() != nil && n.Obj().Pkg().Path() == "github.com/ericlagergren/decimal"
}

func isStringMethod(f *ssa.Function) bool {
	sig := f.Signature
	return sig.Params().Len() == 0 && sig.Results().Len() == 1 && types.Identical(sig.Results().At(0).Type(), tString)
}

func (fr *frame) findMethod(t types.Type, name string) *ssa.Function {
	if t == rtypeType || t == errorType {
		return nil
	}
	if _, ok := t.(*opaqueType); ok {
		return nil
	}
	ms := fr.i.prog.MethodSets.MethodSet(t)
	sel := ms.Lookup(nil, name)
	if sel == nil {
		// unexported lookup needs pkg; exported names only here
		return nil
	}
	return fr.i.prog.MethodValue(sel)
}

func (fr *frame) callMethod(it iface, name string) value {
	m := fr.findMethod(it.t, name)
	if m == nil {
		unsupported("method %s not found on %s", name, it.t)
	}
	return call(fr.i, fr, token.NoPos, m, []value{it.v})
}

func quoteValue(s value) value {
	str, ok := s.(string)
	if !ok {
		unsupported("%%q of a symbolic string")
	}
	return strconv.Quote(str)
}

func (fr *frame) formatPlain(v value, t types.Type, verb byte, depth int) value {
	if depth > 6 {
		unsupported("fmt: value nested too deeply")
	}
	if t == errorType {
		return v
	}
	switch x := v.(type) {
	case string:
		switch verb {
		case 'q':
			return strconv.Quote(x)
		case 'x':
			return fmt.Sprintf("%x", x)
		case 'd', 'c', 'f', 't':
			return "%!" + string(verb) + "(string=" + x + ")"
		}
		return x
	case sstr:
		if verb == 's' || verb == 'v' {
			return x
		}
		unsupported("fmt verb %%%c on a symbolic string", verb)
	case bool:
		if verb == 'v' || verb == 't' {
			return strconv.FormatBool(x)
		}
		return "%!" + string(verb) + "(bool=" + strconv.FormatBool(x) + ")"
	case int, int8, int16, int32, int64:
		n := asInt64(x)
		switch verb {
		case 'd', 'v':
			return strconv.FormatInt(n, 10)
		case 'x':
			return strconv.FormatInt(n, 16)
		case 'X':
			return strings.ToUpper(strconv.FormatInt(n, 16))
		case 'c':
			return string(rune(n))
		case 'q':
			return strconv.QuoteRune(rune(n))
		case 'U':
			return fmt.Sprintf("%U", n)
		case 's':
			return "%!s(" + typeString(t) + "=" + strconv.FormatInt(n, 10) + ")"
		}
	case uint, uint8, uint16, uint32, uint64, uintptr:
		n := uint64(asInt64(x))
		switch verb {
		case 'd', 'v':
			return strconv.FormatUint(n, 10)
		case 'x':
			return strconv.FormatUint(n, 16)
		case 'X':
			return strings.ToUpper(strconv.FormatUint(n, 16))
		case 'c':
			return string(rune(n))
		case 's':
			return "%!s(" + typeString(t) + "=" + strconv.FormatUint(n, 10) + ")"
		}
	case float64:
		switch verb {
		case 'v', 'g':
			return strconv.FormatFloat(x, 'g', -1, 64)
		case 'f':
			return strconv.FormatFloat(x, 'f', 6, 64)
		}
	case float32:
		switch verb {
		case 'v', 'g':
			return strconv.FormatFloat(float64(x), 'g', -1, 32)
		case 'f':
			return strconv.FormatFloat(float64(x), 'f', 6, 32)
		}
	case sym:
		if (verb == 'd' || verb == 'v') && x.t.w == 64 {
			if _, signed, _ := basicInfo(t); signed {
				return fr.itoaSym(x.t)
			}
		}
		if x.t.w == 0 && (verb == 'v' || verb == 't') {
			if fr.i.ps.branch(x.t) {
				return "true"
			}
			return "false"
		}
		unsupported("fmt verb %%%c on a symbolic %s", verb, typeString(t))
	case iface:
		if x.t == nil {
			return "<nil>"
		}
		return fr.formatV(x, verb)
	case []value:
		if verb != 'v' && verb != 's' && verb != 'd' {
			unsupported("fmt verb %%%c on a slice", verb)
		}
		et := t.Underlying().(*types.Slice).Elem()
		if b, ok := et.Underlying().(*types.Basic); ok && b.Kind() == types.Byte && verb == 's' {
			return bytesToStringValue(x)
		}
		out := []value{byte('[')}
		for k, e := range x {
			if k > 0 {
				out = append(out, byte(' '))
			}
			out = append(out, toSstr(fr.formatElem(e, et, verb, depth+1)).b...)
		}
		out = append(out, byte(']'))
		return sstr{out}.norm()
	case array:
		et := t.Underlying().(*types.Array).Elem()
		out := []value{byte('[')}
		for k, e := range x {
			if k > 0 {
				out = append(out, byte(' '))
			}
			out = append(out, toSstr(fr.formatElem(e, et, verb, depth+1)).b...)
		}
		out = append(out, byte(']'))
		return sstr{out}.norm()
	case map[value]value:
		mt := t.Underlying().(*types.Map)
		out := toSstr("map[").b
		for k, key := range sortedKeys(x) {
			if k > 0 {
				out = append(out, byte(' '))
			}
			out = append(out, toSstr(fr.formatElem(key, mt.Key(), verb, depth+1)).b...)
			out = append(out, byte(':'))
			out = append(out, toSstr(fr.formatElem(x[key], mt.Elem(), verb, depth+1)).b...)
		}
		out = append(out, byte(']'))
		return sstr{out}.norm()
	case *value:
		if x == nil {
			return "<nil>"
		}
		if _, ok := mustDeref(t).Underlying().(*types.Struct); ok && depth == 0 {
			inner := fr.formatPlain(*x, mustDeref(t), verb, depth+1)
			return sstr{append([]value{byte('&')}, toSstr(inner).b...)}.norm()
		}
		return "0xc000010000"
	case structure:
		st, ok := t.Underlying().(*types.Struct)
		if !ok {
			unsupported("fmt of %s", typeString(t))
		}
		out := []value{byte('{')}
		for k := 0; k < st.NumFields(); k++ {
			if k > 0 {
				out = append(out, byte(' '))
			}
			out = append(out, toSstr(fr.formatElem(x[k], st.Field(k).Type(), verb, depth+1)).b...)
		}
		out = append(out, byte('}'))
		return sstr{out}.norm()
	case *ssa.Function, *closure:
		return "0x47b2c0"
	}
	unsupported("fmt verb %%%c on %s (%T)", verb, typeString(t), v)
	return nil
}

func (fr *frame) formatElem(e value, et types.Type, verb byte, depth int) value {
	if it, ok := e.(iface); ok {
		if it.t == nil {
			return "<nil>"
		}
		return fr.formatV(it, verb)
	}
	if _, isIface := et.Underlying().(*types.Interface); !isIface {
		// method-bearing element types
		return fr.formatV(iface{et, e}, verb)
	}
	return fr.formatPlain(e, et, verb, depth)
}

// jsonValue renders a tiny subset of encoding/json.
func (fr *frame) jsonValue(a value) value {
	it, ok := a.(iface)
	if !ok || it.t == nil {
		return "null"
	}
	switch x := it.v.(type) {
	case string:
		b, _ := jsonQuote(x)
		return b
	case bool:
		return strconv.FormatBool(x)
	case int, int8, int16, int32, int64:
		return strconv.FormatInt(asInt64(x), 10)
	case uint, uint8, uint16, uint32, uint64:
		return strconv.FormatUint(uint64(asInt64(x)), 10)
	case float64:
		return strconv.FormatFloat(x, 'g', -1, 64)
	case []value:
		if x == nil {
			return "null"
		}
		var parts []string
		for _, e := range x {
			s, ok := fr.jsonValue(e).(string)
			if !ok {
				unsupported("json of symbolic data")
			}
			parts = append(parts, s)
		}
		return "[" + strings.Join(parts, ",") + "]"
	case map[value]value:
		keys := sortedKeys(x)
		var parts []string
		sort.Slice(keys, func(i, j int) bool { return keys[i].(string) < keys[j].(string) })
		for _, k := range keys {
			ks, _ := jsonQuote(k.(string))
			s, ok := fr.jsonValue(x[k]).(string)
			if !ok {
				unsupported("json of symbolic data")
			}
			parts = append(parts, ks+":"+s)
		}
		return "{" + strings.Join(parts, ",") + "}"
	}
	unsupported("json.Marshal of %s", typeString(it.t))
	return nil
}

func jsonQuote(s string) (string, error) {
	var sb strings.Builder
	sb.WriteByte('"')
	for _, r := range s {
		switch {
		case r == '"' || r == '\\':
			sb.WriteByte('\\')
			sb.WriteRune(r)
		case r == '\n':
			sb.WriteString("\\n")
		case r == '\r':
			sb.WriteString("\\r")
		case r == '\t':
			sb.WriteString("\\t")
		case r < 0x20 || r == '<' || r == '>' || r == '&' || r == 0x2028 || r == 0x2029:
			fmt.Fprintf(&sb, "\\u%04x", r)
		default:
			sb.WriteRune(r)
		}
	}
	sb.WriteByte('"')
	return sb.String(), nil
}
