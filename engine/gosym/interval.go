package interp

// Cheap pre-solver reasoning: per-variable intervals learned from the path
// condition decide comparisons of a variable (possibly zero/sign-extended)
// against constants.  Everything the domain cannot decide goes to the solver;
// the domain only saves solver calls the solver would answer the same way
// (each fact is implied by assertions already sent to the solver).

type ival struct {
	w        int
	ulo, uhi uint64
	slo, shi int64
}

func fullIval(w int) *ival {
	iv := &ival{w: w, ulo: 0, uhi: mask(w)}
	if w >= 64 {
		iv.slo, iv.shi = -1<<63, 1<<63-1
	} else {
		iv.slo, iv.shi = -(int64(1) << uint(w-1)), int64(1)<<uint(w-1)-1
	}
	return iv
}

func (iv *ival) sync() {
	half := uint64(1) << uint(iv.w-1)
	// unsigned -> signed
	if iv.uhi < half { // non-negative region
		if int64(iv.ulo) > iv.slo {
			iv.slo = int64(iv.ulo)
		}
		if int64(iv.uhi) < iv.shi {
			iv.shi = int64(iv.uhi)
		}
	} else if iv.ulo >= half { // negative region
		lo, hi := sext(iv.ulo, iv.w), sext(iv.uhi, iv.w)
		if lo > iv.slo {
			iv.slo = lo
		}
		if hi < iv.shi {
			iv.shi = hi
		}
	}
	// signed -> unsigned
	if iv.slo >= 0 {
		if uint64(iv.slo) > iv.ulo {
			iv.ulo = uint64(iv.slo)
		}
		if uint64(iv.shi) < iv.uhi {
			iv.uhi = uint64(iv.shi)
		}
	} else if iv.shi < 0 {
		lo, hi := uint64(iv.slo)&mask(iv.w), uint64(iv.shi)&mask(iv.w)
		if lo > iv.ulo {
			iv.ulo = lo
		}
		if hi < iv.uhi {
			iv.uhi = hi
		}
	}
}

// atom decomposes a comparison into (variable view, op with the variable on
// the left, constant).
type varView struct {
	name string
	vw   int  // width of the variable
	ext  byte // 0 none, 'z' zero_extend, 's' sign_extend
	w    int  // width of the compared term
}

func viewOf(t *Term) (varView, bool) {
	switch t.op {
	case "var":
		if t.w > 0 {
			return varView{t.name, t.w, 0, t.w}, true
		}
	case "zero_extend":
		if x := t.args[0]; x.op == "var" {
			return varView{x.name, x.w, 'z', t.w}, true
		}
	case "sign_extend":
		if x := t.args[0]; x.op == "var" {
			return varView{x.name, x.w, 's', t.w}, true
		}
	}
	return varView{}, false
}

var flipOp = map[string]string{"bvult": "bvugt", "bvule": "bvuge", "bvugt": "bvult", "bvuge": "bvule", "bvslt": "bvsgt", "bvsle": "bvsge", "bvsgt": "bvslt", "bvsge": "bvsle", "=": "="}
var negOp = map[string]string{"bvult": "bvuge", "bvule": "bvugt", "bvugt": "bvule", "bvuge": "bvult", "bvslt": "bvsge", "bvsle": "bvsgt", "bvsgt": "bvsle", "bvsge": "bvslt"}

func atomOf(t *Term) (v varView, op string, c uint64, ok bool) {
	if _, isCmp := flipOp[t.op]; !isCmp || len(t.args) != 2 {
		return
	}
	a, b := t.args[0], t.args[1]
	if b.isConst() {
		if vv, ok2 := viewOf(a); ok2 && a.w <= 64 {
			return vv, t.op, b.val, true
		}
	}
	if a.isConst() {
		if vv, ok2 := viewOf(b); ok2 && b.w <= 64 {
			return vv, flipOp[t.op], a.val, true
		}
	}
	return
}

// valueRange returns the range of the compared term as (signed?) numbers for
// the given comparison family; ok=false if the view cannot be bounded.
func (ps *pathState) rangeU(v varView) (lo, hi uint64, ok bool) {
	iv := ps.ivals[v.name]
	if iv == nil {
		iv = fullIval(v.vw)
	}
	switch v.ext {
	case 0, 'z':
		return iv.ulo, iv.uhi, true
	case 's':
		if iv.slo >= 0 {
			return uint64(iv.slo), uint64(iv.shi), true
		}
		if iv.shi < 0 {
			return uint64(iv.slo) & mask(v.w), uint64(iv.shi) & mask(v.w), true
		}
	}
	return 0, 0, false
}

func (ps *pathState) rangeS(v varView) (lo, hi int64, ok bool) {
	iv := ps.ivals[v.name]
	if iv == nil {
		iv = fullIval(v.vw)
	}
	switch v.ext {
	case 0, 's':
		return iv.slo, iv.shi, true
	case 'z':
		if v.w > v.vw { // strictly wider: value is the unsigned value, non-negative
			if iv.uhi <= 1<<62 {
				return int64(iv.ulo), int64(iv.uhi), true
			}
		}
	}
	return 0, 0, false
}

// eval3 evaluates a Bool term over the interval facts: 1 true, 0 false, -1 unknown.
func (ps *pathState) eval3(t *Term) int {
	switch t.op {
	case "const":
		if t.val != 0 {
			return 1
		}
		return 0
	case "not":
		r := ps.eval3(t.args[0])
		if r < 0 {
			return -1
		}
		return 1 - r
	case "and":
		res := 1
		for _, a := range t.args {
			switch ps.eval3(a) {
			case 0:
				return 0
			case -1:
				res = -1
			}
		}
		return res
	case "or":
		res := 0
		for _, a := range t.args {
			switch ps.eval3(a) {
			case 1:
				return 1
			case -1:
				res = -1
			}
		}
		return res
	case "ite":
		if t.w != 0 {
			return -1
		}
		switch ps.eval3(t.args[0]) {
		case 1:
			return ps.eval3(t.args[1])
		case 0:
			return ps.eval3(t.args[2])
		}
		a, b := ps.eval3(t.args[1]), ps.eval3(t.args[2])
		if a == b {
			return a
		}
		return -1
	}
	v, op, c, ok := atomOf(t)
	if !ok {
		return -1
	}
	switch op {
	case "bvult", "bvule", "bvugt", "bvuge", "=":
		lo, hi, ok := ps.rangeU(v)
		if !ok {
			return -1
		}
		switch op {
		case "bvult":
			if hi < c {
				return 1
			}
			if lo >= c {
				return 0
			}
		case "bvule":
			if hi <= c {
				return 1
			}
			if lo > c {
				return 0
			}
		case "bvugt":
			if lo > c {
				return 1
			}
			if hi <= c {
				return 0
			}
		case "bvuge":
			if lo >= c {
				return 1
			}
			if hi < c {
				return 0
			}
		case "=":
			if lo == hi && lo == c {
				return 1
			}
			if c < lo || c > hi {
				return 0
			}
		}
	case "bvslt", "bvsle", "bvsgt", "bvsge":
		lo, hi, ok := ps.rangeS(v)
		if !ok {
			return -1
		}
		sc := sext(c, v.w)
		switch op {
		case "bvslt":
			if hi < sc {
				return 1
			}
			if lo >= sc {
				return 0
			}
		case "bvsle":
			if hi <= sc {
				return 1
			}
			if lo > sc {
				return 0
			}
		case "bvsgt":
			if lo > sc {
				return 1
			}
			if hi <= sc {
				return 0
			}
		case "bvsge":
			if lo >= sc {
				return 1
			}
			if hi < sc {
				return 0
			}
		}
	}
	return -1
}

// learnIval tightens intervals from an asserted condition.
func (ps *pathState) learnIval(t *Term, positive bool) {
	switch t.op {
	case "not":
		ps.learnIval(t.args[0], !positive)
		return
	case "and":
		if positive {
			for _, a := range t.args {
				ps.learnIval(a, true)
			}
		}
		return
	case "or":
		if !positive {
			for _, a := range t.args {
				ps.learnIval(a, false)
			}
		}
		return
	}
	v, op, c, ok := atomOf(t)
	if !ok {
		return
	}
	if !positive {
		if op == "=" {
			// x != c: shave interval ends
			if v.ext == 0 || v.ext == 'z' {
				iv := ps.ivalFor(v)
				if c == iv.ulo && iv.ulo < iv.uhi {
					iv.ulo++
				} else if c == iv.uhi && iv.uhi > iv.ulo {
					iv.uhi--
				}
				iv.sync()
			}
			return
		}
		op = negOp[op]
	}
	iv := ps.ivalFor(v)
	switch op {
	case "=":
		if v.ext == 0 || v.ext == 'z' {
			if c <= mask(v.vw) {
				iv.ulo, iv.uhi = c, c
			}
		} else if v.ext == 's' {
			sc := sext(c, v.w)
			iv.slo, iv.shi = sc, sc
		}
	case "bvult", "bvule", "bvugt", "bvuge":
		if v.ext == 's' {
			return
		}
		switch op {
		case "bvult":
			if c == 0 {
				return
			}
			if c-1 < iv.uhi {
				iv.uhi = c - 1
			}
		case "bvule":
			if c < iv.uhi {
				iv.uhi = c
			}
		case "bvugt":
			if c == ^uint64(0) {
				return
			}
			if c+1 > iv.ulo {
				iv.ulo = c + 1
			}
		case "bvuge":
			if c > iv.ulo {
				iv.ulo = c
			}
		}
	case "bvslt", "bvsle", "bvsgt", "bvsge":
		sc := sext(c, v.w)
		if v.ext == 'z' {
			// value is the unsigned value (non-negative) when strictly wider
			if v.w <= v.vw {
				return
			}
			switch op {
			case "bvslt":
				if sc <= 0 {
					return
				}
				if uint64(sc-1) < iv.uhi {
					iv.uhi = uint64(sc - 1)
				}
			case "bvsle":
				if sc < 0 {
					return
				}
				if uint64(sc) < iv.uhi {
					iv.uhi = uint64(sc)
				}
			case "bvsgt":
				if sc >= 0 && uint64(sc+1) > iv.ulo {
					iv.ulo = uint64(sc + 1)
				}
			case "bvsge":
				if sc > 0 && uint64(sc) > iv.ulo {
					iv.ulo = uint64(sc)
				}
			}
			break
		}
		switch op {
		case "bvslt":
			if sc-1 < iv.shi && sc > -1<<63 {
				iv.shi = sc - 1
			}
		case "bvsle":
			if sc < iv.shi {
				iv.shi = sc
			}
		case "bvsgt":
			if sc+1 > iv.slo && sc < 1<<63-1 {
				iv.slo = sc + 1
			}
		case "bvsge":
			if sc > iv.slo {
				iv.slo = sc
			}
		}
	}
	iv.sync()
}

func (ps *pathState) ivalFor(v varView) *ival {
	if ps.ivals == nil {
		ps.ivals = map[string]*ival{}
	}
	iv := ps.ivals[v.name]
	if iv == nil {
		iv = fullIval(v.vw)
		ps.ivals[v.name] = iv
	}
	return iv
}
