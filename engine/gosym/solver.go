package interp

// One long-lived SMT solver process per worker, driven over a pipe with
// push/pop.  Every command that produces output is followed by an echo marker
// so that error lines can never be mistaken for a verdict.

import (
	"bufio"
	"fmt"
	"io"
	"os"
	"os/exec"
	"strconv"
	"strings"
	"time"
)

type Solver struct {
	name    string
	cmd     *exec.Cmd
	in      *bufio.Writer
	inc     io.WriteCloser
	out     *bufio.Reader
	mark    int
	NSat    int
	NUnsat  int
	NUnk    int
	NErr    int
	NRetry  int
	Time    time.Duration
	MaxTime time.Duration
	log     io.Writer
	dead    bool
}

var SolverTimeoutMs = 30000
var SolverKind = "z3" // z3 | z3-new | cvc5
var SlowLog io.Writer
var QueryLogDir = "" // if set, every worker logs its SMT dialogue there

func newSolver(id int) *Solver {
	var cmd *exec.Cmd
	switch SolverKind {
	case "cvc5":
		cmd = exec.Command("cvc5", "--incremental", "--lang=smt2", "--produce-models", fmt.Sprintf("--tlimit-per=%d", SolverTimeoutMs))
	case "z3-new":
		cmd = exec.Command("z3-new", "-in")
	default:
		cmd = exec.Command("z3", "-in")
	}
	inp, _ := cmd.StdinPipe()
	outp, _ := cmd.StdoutPipe()
	cmd.Stderr = nil
	if err := cmd.Start(); err != nil {
		panic("cannot start solver: " + err.Error())
	}
	s := &Solver{name: SolverKind, cmd: cmd, inc: inp, in: bufio.NewWriterSize(inp, 1<<16), out: bufio.NewReaderSize(outp, 1<<16)}
	if QueryLogDir != "" {
		f, err := os.Create(fmt.Sprintf("%s/worker%d.smt2", QueryLogDir, id))
		if err == nil {
			s.log = f
		}
	}
	if SolverKind == "cvc5" {
		s.Send("(set-logic ALL)")
	} else {
		s.Send(fmt.Sprintf("(set-option :timeout %d)", SolverTimeoutMs))
	}
	return s
}

func (s *Solver) Send(x string) {
	if s.log != nil {
		io.WriteString(s.log, x+"\n")
	}
	s.in.WriteString(x)
	s.in.WriteByte('\n')
}

// roundtrip sends cmd, then a marker, and returns everything printed before the marker.
func (s *Solver) roundtrip(cmd string) (string, bool) {
	s.mark++
	m := "MARK" + strconv.Itoa(s.mark)
	s.Send(cmd)
	s.Send("(echo \"" + m + "\")")
	if err := s.in.Flush(); err != nil {
		s.dead = true
		return "", false
	}
	var sb strings.Builder
	hadErr := false
	for {
		line, err := s.out.ReadString('\n')
		if err != nil {
			s.dead = true
			return sb.String(), false
		}
		if strings.Contains(line, m) {
			break
		}
		if strings.HasPrefix(strings.TrimSpace(line), "(error") {
			hadErr = true
		}
		sb.WriteString(line)
	}
	if s.log != nil {
		io.WriteString(s.log, "; -> "+strings.ReplaceAll(strings.TrimSpace(sb.String()), "\n", " ")+"\n")
	}
	return strings.TrimSpace(sb.String()), !hadErr
}

// Check returns "sat", "unsat", "unknown" or "error".
func (s *Solver) Check() string {
	t0 := time.Now()
	r, ok := s.roundtrip("(check-sat)")
	if ok && (r == "unknown" || r == "timeout") && s.name != "cvc5" {
		// one retry with four times the time limit (a loaded machine turns slow queries into
		// timeouts); the verdict is still the solver's
		s.Send(fmt.Sprintf("(set-option :timeout %d)", 4*SolverTimeoutMs))
		r, ok = s.roundtrip("(check-sat)")
		s.Send(fmt.Sprintf("(set-option :timeout %d)", SolverTimeoutMs))
		s.NRetry++
	}
	d := time.Since(t0)
	if SlowLog != nil && d > 2*time.Second {
		fmt.Fprintf(SlowLog, "SLOW %v -> %s\n", d, r)
	}
	s.Time += d
	if d > s.MaxTime {
		s.MaxTime = d
	}
	if !ok {
		s.NErr++
		return "error"
	}
	switch r {
	case "sat":
		s.NSat++
	case "unsat":
		s.NUnsat++
	case "unknown", "timeout":
		s.NUnk++
		r = "unknown"
	default:
		s.NErr++
		return "error"
	}
	return r
}

// GetValues returns the model values of the given variables (after a sat Check).
func (s *Solver) GetValues(vars []varDecl) (Model, bool) {
	m := Model{}
	if len(vars) == 0 {
		return m, true
	}
	names := make([]string, len(vars))
	for i, v := range vars {
		names[i] = v.name
	}
	r, ok := s.roundtrip("(get-value (" + strings.Join(names, " ") + "))")
	if !ok {
		return nil, false
	}
	toks := tokenize(r)
	// expected shape: ( ( name value ) ( name value ) ... )
	pos := 0
	next := func() string {
		if pos < len(toks) {
			pos++
			return toks[pos-1]
		}
		return ""
	}
	if next() != "(" {
		return nil, false
	}
	for i := range vars {
		if next() != "(" {
			return nil, false
		}
		nm := next()
		if nm != names[i] {
			return nil, false
		}
		v, ok := parseValue(toks, &pos)
		if !ok {
			return nil, false
		}
		if next() != ")" {
			return nil, false
		}
		m[nm] = v
	}
	return m, true
}

// GetTermValue evaluates a single term in the current model.
func (s *Solver) GetTermValue(t *Term) (uint64, bool) {
	r, ok := s.roundtrip("(get-value (" + smt(t) + "))")
	if !ok {
		return 0, false
	}
	toks := tokenize(r)
	// ( ( <term tokens...> value ) ) : the value is the last value before the final two ")"
	if len(toks) < 5 {
		return 0, false
	}
	// find the start of the value: scan from the end
	end := len(toks) - 2
	// value is either an atom or a parenthesised (fp ...) / (_ bvN w)
	start := end - 1
	if toks[start] == ")" {
		depth := 0
		for start >= 0 {
			if toks[start] == ")" {
				depth++
			} else if toks[start] == "(" {
				depth--
				if depth == 0 {
					break
				}
			}
			start--
		}
	}
	p := start
	return parseValueAt(toks, &p)
}

func parseValueAt(toks []string, pos *int) (uint64, bool) { return parseValue(toks, pos) }

func tokenize(s string) []string {
	var out []string
	i := 0
	for i < len(s) {
		c := s[i]
		switch {
		case c == '(' || c == ')':
			out = append(out, string(c))
			i++
		case c == ' ' || c == '\n' || c == '\t' || c == '\r':
			i++
		case c == '|':
			j := i + 1
			for j < len(s) && s[j] != '|' {
				j++
			}
			out = append(out, s[i:j+1])
			i = j + 1
		default:
			j := i
			for j < len(s) && !strings.ContainsRune("() \n\t\r", rune(s[j])) {
				j++
			}
			out = append(out, s[i:j])
			i = j
		}
	}
	return out
}

func parseAtom(a string) (uint64, int, bool) {
	switch {
	case a == "true":
		return 1, 0, true
	case a == "false":
		return 0, 0, true
	case strings.HasPrefix(a, "#x"):
		v, err := strconv.ParseUint(a[2:], 16, 64)
		return v, 4 * (len(a) - 2), err == nil
	case strings.HasPrefix(a, "#b"):
		v, err := strconv.ParseUint(a[2:], 2, 64)
		return v, len(a) - 2, err == nil
	}
	return 0, 0, false
}

func parseValue(toks []string, pos *int) (uint64, bool) {
	if *pos >= len(toks) {
		return 0, false
	}
	t := toks[*pos]
	if t != "(" {
		*pos++
		v, _, ok := parseAtom(t)
		return v, ok
	}
	// ( _ bvN w ) | ( fp s e m ) | ( _ NaN 11 53 ) | ( _ +oo 11 53 ) | (_ +zero ..)
	*pos++
	head := toks[*pos]
	*pos++
	switch head {
	case "_":
		k := toks[*pos]
		*pos++
		var v uint64
		ok := true
		switch {
		case strings.HasPrefix(k, "bv"):
			x, err := strconv.ParseUint(k[2:], 10, 64)
			v, ok = x, err == nil
		case k == "NaN":
			v = 0x7ff8000000000001
		case k == "+oo":
			v = 0x7ff0000000000000
		case k == "-oo":
			v = 0xfff0000000000000
		case k == "+zero":
			v = 0
		case k == "-zero":
			v = 1 << 63
		default:
			ok = false
		}
		for *pos < len(toks) && toks[*pos] != ")" {
			*pos++
		}
		*pos++
		return v, ok
	case "fp":
		s, _, ok1 := parseAtom(toks[*pos])
		e, _, ok2 := parseAtom(toks[*pos+1])
		m, _, ok3 := parseAtom(toks[*pos+2])
		*pos += 3
		if *pos < len(toks) && toks[*pos] == ")" {
			*pos++
		}
		return s<<63 | e<<52 | m, ok1 && ok2 && ok3
	}
	return 0, false
}

func (s *Solver) Close() {
	if s.dead {
		return
	}
	s.Send("(exit)")
	s.in.Flush()
	s.inc.Close()
	done := make(chan struct{})
	go func() { s.cmd.Wait(); close(done) }()
	select {
	case <-done:
	case <-time.After(2 * time.Second):
		s.cmd.Process.Kill()
	}
}
