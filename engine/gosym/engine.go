package interp

// Program loading, per-worker interpreters and the path loop.

import (
	"fmt"
	"go/token"
	"go/types"
	"math"
	"os"
	"runtime"
	"sort"
	"strings"
	"sync"
	"time"

	"golang.org/x/tools/go/packages"
	"golang.org/x/tools/go/ssa"
	"golang.org/x/tools/go/ssa/ssautil"
)

type Program struct {
	Prog    *ssa.Program
	Main    *ssa.Package // the package under test (with the harness overlay)
	sizes   types.Sizes
	reflect *ssa.Package
	rtypeM  methodSet
	errorM  methodSet
	LoadDur time.Duration
}

var defaultInitAllow = []string{
	"github.com/aundis/formula",
	"github.com/ericlagergren/decimal", "github.com/ericlagergren/decimal/internal/arith", "github.com/ericlagergren/decimal/internal/c",
	"io", "strconv", "strings", "bytes", "math", "math/big", "math/bits", "unicode", "unicode/utf8", "regexp", "regexp/syntax", "sort", "slices",
	"context", "time",
}

// Load type-checks dir (with overlay files) and builds SSA for it and all its
// dependencies.
func Load(dir string, overlay map[string][]byte) (*Program, error) {
	t0 := time.Now()
	cfg := &packages.Config{
		Mode:       packages.LoadAllSyntax,
		Dir:        dir,
		Overlay:    overlay,
		BuildFlags: []string{"-tags=math_big_pure_go,purego", "-mod=readonly"},
		Env:        append(os.Environ(), "GOFLAGS=", "GOPROXY=off", "GOSUMDB=off", "GOTOOLCHAIN=local", "GOWORK=off"),
	}
	pkgs, err := packages.Load(cfg, ".")
	if err != nil {
		return nil, err
	}
	var errs []string
	packages.Visit(pkgs, nil, func(p *packages.Package) {
		for _, e := range p.Errors {
			errs = append(errs, e.Error())
		}
	})
	if len(errs) > 0 {
		return nil, fmt.Errorf("load errors:\n%s", strings.Join(errs, "\n"))
	}
	prog, ssapkgs := ssautil.AllPackages(pkgs, ssa.InstantiateGenerics)
	prog.Build()
	p := &Program{Prog: prog, Main: ssapkgs[0], sizes: types.SizesFor("gc", "amd64")}
	p.setupReflect()
	for _, a := range defaultInitAllow {
		InitAllow[a] = true
	}
	InitAllow[p.Main.Pkg.Path()] = true
	p.LoadDur = time.Since(t0)
	return p, nil
}

// setupReflect performs the (program-mutating) part of the reference
// interpreter's initReflect exactly once.
func (p *Program) setupReflect() {
	i := &interpreter{prog: p.Prog}
	initReflect(i)
	p.reflect = i.reflectPackage
	p.rtypeM = i.rtypeMethods
	p.errorM = i.errorMethods
}

type worker struct {
	id   int
	p    *Program
	i    *interpreter
	sol  *Solver
	ex   *Explorer
	cfg  *Config
	npth int
}

type Config struct {
	Harness     string
	Params      map[string]int
	Workers     int
	SampleEvery int
	MaxPaths    int
	Timeout     time.Duration
	StepBudget  int
	Monitor     bool     // enable the write monitor (C08/C09)
	ReinitPkgs  []string // packages whose globals are re-initialised before each path
}

func (p *Program) newInterp() *interpreter {
	i := &interpreter{
		prog:           p.Prog,
		globals:        make(map[*ssa.Global]*value),
		sizes:          p.sizes,
		goroutines:     1,
		reflectPackage: p.reflect,
		rtypeMethods:   p.rtypeM,
		errorMethods:   p.errorM,
		funcsHit:       map[string]int{},
		syncMaps:       map[*value]*syncMapModel{},
	}
	runtimePkg := p.Prog.ImportedPackage("runtime")
	if runtimePkg == nil {
		panic("ssa.Program doesn't include runtime package")
	}
	i.runtimeErrorString = runtimePkg.Type("errorString").Object().Type()
	for _, pkg := range p.Prog.AllPackages() {
		for _, m := range pkg.Members {
			if g, ok := m.(*ssa.Global); ok {
				cell := zero(mustDeref(g.Type()))
				i.globals[g] = &cell
			}
		}
	}
	return i
}

// reinit zeroes the globals of pkg and re-runs its initialiser.
func (i *interpreter) reinit(pkg *ssa.Package) {
	names := make([]string, 0, len(pkg.Members))
	for n, m := range pkg.Members {
		if _, ok := m.(*ssa.Global); ok {
			names = append(names, n)
		}
	}
	sort.Strings(names)
	for _, n := range names {
		g := pkg.Members[n].(*ssa.Global)
		*i.globals[g] = zero(mustDeref(g.Type()))
	}
	for k := range i.syncMaps {
		delete(i.syncMaps, k)
	}
	call(i, nil, token.NoPos, pkg.Func("init"), nil)
}

// Explore runs harness cfg.Harness over all paths.
func (p *Program) Explore(cfg Config) (*Explorer, error) {
	fn := p.Main.Func(cfg.Harness)
	if fn == nil {
		return nil, fmt.Errorf("harness %s not found in %s", cfg.Harness, p.Main.Pkg.Path())
	}
	ex := newExplorer()
	ex.SampleEvery = cfg.SampleEvery
	ex.MaxPaths = cfg.MaxPaths
	if cfg.StepBudget > 0 {
		ex.StepBudget = cfg.StepBudget
	}
	if cfg.Timeout > 0 {
		ex.Deadline = time.Now().Add(cfg.Timeout)
	}
	if cfg.Workers <= 0 {
		cfg.Workers = runtime.NumCPU()
	}
	ex.work = append(ex.work, nil)
	var wg sync.WaitGroup
	errc := make(chan error, cfg.Workers)
	for w := 0; w < cfg.Workers; w++ {
		wg.Add(1)
		go func(id int) {
			defer wg.Done()
			wk := &worker{id: id, p: p, ex: ex, cfg: &cfg}
			if err := wk.run(fn); err != nil {
				errc <- err
				ex.mu.Lock()
				ex.stop = true
				ex.cond.Broadcast()
				ex.mu.Unlock()
			}
		}(w)
	}
	wg.Wait()
	select {
	case err := <-errc:
		return ex, err
	default:
	}
	return ex, nil
}

func (wk *worker) run(fn *ssa.Function) (err error) {
	defer func() {
		if r := recover(); r != nil {
			err = fmt.Errorf("worker %d crashed: %v%s", wk.id, r, hostStack())
		}
	}()
	wk.i = wk.p.newInterp()
	wk.i.wk = wk
	// concrete initialisation (no path)
	if e := wk.safeInit(); e != nil {
		return e
	}
	wk.sol = newSolver(wk.id)
	defer func() {
		wk.ex.mu.Lock()
		wk.ex.Solvers = append(wk.ex.Solvers, wk.sol)
		wk.ex.mu.Unlock()
		wk.sol.Close()
	}()
	var reinit []*ssa.Package
	for _, path := range wk.cfg.ReinitPkgs {
		for _, pk := range wk.p.Prog.AllPackages() {
			if pk.Pkg.Path() == path {
				reinit = append(reinit, pk)
			}
		}
	}
	// Package-level variables of the other (non-standard-library) packages are not
	// re-initialised (their init is expensive); those that are plain data - structs and arrays
	// of scalars such as the decimal library's Context128 - are snapshotted once and restored
	// before every path, so that a write to such a variable neither leaks into later paths
	// nor goes unnoticed because an earlier path already made it.
	flat := map[*value]value{}
	for _, pk := range wk.p.Prog.AllPackages() {
		path := pk.Pkg.Path()
		if isStdlibPath(path) {
			continue
		}
		skip := false
		for _, r := range reinit {
			if r == pk {
				skip = true
			}
		}
		if skip {
			continue
		}
		for _, m := range pk.Members {
			if g, ok := m.(*ssa.Global); ok && isFlatType(mustDeref(g.Type())) {
				if addr := wk.i.globals[g]; addr != nil {
					flat[addr] = copyFlat(*addr)
				}
			}
		}
	}
	first := true
	for {
		prefix, ok := wk.ex.pop()
		if !ok {
			return nil
		}
		for addr, v := range flat {
			*addr = copyFlat(v)
		}
		if !first || true {
			for _, pk := range reinit {
				wk.i.ps = nil
				wk.i.replaced = nil // replacements installed by the previous path's harness do not apply to initialisers
				wk.i.reinit(pk)
			}
		}
		first = false
		wk.onePath(fn, prefix)
		wk.ex.done()
		if wk.sol.dead {
			return fmt.Errorf("solver process died")
		}
	}
}

func (wk *worker) safeInit() (err error) {
	defer func() {
		if r := recover(); r != nil {
			err = fmt.Errorf("package initialisation failed in the interpreter: %v\n  at %s", describePanic(r), wk.i.panicWhere())
		}
	}()
	call(wk.i, nil, token.NoPos, wk.p.Main.Func("init"), nil)
	return nil
}

func describePanic(r interface{}) string {
	switch r := r.(type) {
	case targetPanic:
		return "panic: " + panicText(r.v)
	case targetRuntimeError:
		return "panic: runtime error: " + string(r)
	case runtime.Error:
		return "panic: runtime error: " + r.Error()
	case string:
		return "panic: " + r
	case inconclusive:
		return "inconclusive: " + r.why
	case engineBug:
		return "enginebug: " + r.msg
	case pathAbort:
		return "abort: " + r.why
	case budgetExceeded:
		return "budget"
	case targetFatal:
		return "panic: fatal error: " + string(r)
	}
	return fmt.Sprintf("enginebug: unexpected panic %T %v", r, r)
}

func panicText(v value) string {
	if it, ok := v.(iface); ok {
		switch x := it.v.(type) {
		case string:
			return x
		case sstr:
			return "<symbolic string>"
		}
		return fmt.Sprintf("(%v) %s", it.t, toString(it.v))
	}
	return toString(v)
}

type event struct {
	kind  byte // 'A' assert, 'O' observe, 'R' reach
	label string
	cond  *Term // for 'A' (nil when concrete; then b holds)
	b     bool
	vals  []value // for 'O'
}

func (wk *worker) onePath(fn *ssa.Function, prefix []decision) {
	i := wk.i
	ps := &pathState{ex: wk.ex, wk: wk, sol: wk.sol, prefix: prefix, nconc: map[*Term]int{}, memo: map[*Term]*Term{}}
	if wk.cfg.Monitor {
		ps.monitor = newWriteMonitor(i)
	}
	wk.sol.Send("(push)")
	i.ps = ps
	i.depth = 0
	i.replaced = nil
	i.pools = nil
	i.panicStack = nil
	i.fmtDepth = 0
	i.reverseMaps = false
	i.callStack = i.callStack[:0]
	for k := range i.funcsHit {
		delete(i.funcsHit, k)
	}
	outcome := "ok"
	func() {
		defer func() {
			if r := recover(); r != nil {
				outcome = describePanic(r)
				if _, isBug := r.(engineBug); !isBug && strings.HasPrefix(outcome, "enginebug") {
					outcome += hostStack()
				}
				if strings.HasPrefix(outcome, "enginebug") || strings.HasPrefix(outcome, "inconclusive") {
					outcome += " [in " + i.panicWhere() + "]"
				}
			}
		}()
		call(i, nil, token.NoPos, fn, nil)
	}()
	i.ps = nil
	wk.npth++
	rec := &PathRecord{Outcome: outcome, Asserts: ps.asserts, Reached: ps.reached, Steps: ps.steps, Vars: ps.vars}
	if ps.monitor != nil {
		rec.Writes = ps.monitor.records()
	}
	kind := outcome
	if j := strings.Index(kind, ":"); j > 0 {
		kind = kind[:j]
	}
	needModel := kind == "panic" || kind == "budget"
	if !needModel && wk.ex.SampleEvery > 0 && kind == "ok" && (wk.npth%wk.ex.SampleEvery == 0 || wk.npth == 2) {
		needModel = true
	}
	if needModel {
		if m, st := ps.model(); st == "sat" {
			rec.Model = m
			rec.Expected = ps.expectedTrace(m, outcome)
		} else if kind == "panic" || kind == "budget" {
			if st == "unsat" {
				rec.Outcome = "abort: infeasible"
			} else {
				rec.Outcome = "inconclusive: solver " + st + " at end of a " + kind + " path"
			}
		}
	}
	// expected traces for assertion counterexamples
	for k := range rec.Asserts {
		a := &rec.Asserts[k]
		if a.Model != nil {
			_ = a
		}
	}
	rec.Events = ps.eventLabels()
	wk.sol.Send("(pop)")
	wk.ex.record(rec, ps, i.funcsHit)
}

func (ps *pathState) eventLabels() []string { return ps.events }

// expectedTrace renders the observable event trace of this path under model m.
func (ps *pathState) expectedTrace(m Model, outcome string) []string {
	memo := map[*Term]*Term{}
	var out []string
	for _, e := range ps.evs {
		switch e.kind {
		case 'A':
			b := e.b
			if e.cond != nil {
				c := evalTerm(e.cond, m, memo)
				if !c.isConst() {
					out = append(out, "A:"+e.label+":?")
					continue
				}
				b = c.val != 0
			}
			out = append(out, fmt.Sprintf("A:%s:%v", e.label, b))
		case 'R':
			out = append(out, "R:"+e.label)
		case 'O':
			var parts []string
			for _, v := range e.vals {
				parts = append(parts, renderObserved(v, m, memo))
			}
			out = append(out, "O:"+e.label+":"+strings.Join(parts, ","))
		}
	}
	if strings.HasPrefix(outcome, "panic") {
		out = append(out, "PANIC")
	}
	return out
}

func renderObserved(v value, m Model, memo map[*Term]*Term) string {
	if it, ok := v.(iface); ok {
		if it.t == nil {
			return "nil"
		}
		return renderTyped(it.v, it.t, m, memo)
	}
	return renderTyped(v, nil, m, memo)
}

func renderTyped(v value, t types.Type, m Model, memo map[*Term]*Term) string {
	switch x := v.(type) {
	case sym:
		c := evalTerm(x.t, m, memo)
		if !c.isConst() {
			return "?"
		}
		if t == nil {
			return fmt.Sprint(c.val)
		}
		return renderTyped(mkValue(c, t), t, m, memo)
	case sstr:
		bs := make([]byte, len(x.b))
		for i, b := range x.b {
			c := evalTerm(toTerm(b), m, memo)
			bs[i] = byte(c.val)
		}
		return fmt.Sprintf("%q", string(bs))
	case string:
		return fmt.Sprintf("%q", x)
	case bool, int, int8, int16, int32, int64, uint, uint8, uint16, uint32, uint64, uintptr:
		return fmt.Sprint(x)
	case float64:
		if math.IsNaN(x) {
			return "NaN"
		}
		return fmt.Sprint(x)
	case []value:
		// []byte
		bs := make([]byte, len(x))
		for i, b := range x {
			c := evalTerm(toTerm(b), m, memo)
			bs[i] = byte(c.val)
		}
		return fmt.Sprintf("%q", string(bs))
	}
	return fmt.Sprintf("<%T>", v)
}

// VarInfo is the exported view of a declared nondeterministic input.
type VarInfo struct{ Name, Kind, Tag string }

func VarInfos(vs []varDecl) []VarInfo {
	out := make([]VarInfo, len(vs))
	for i, v := range vs {
		out[i] = VarInfo{v.name, v.kind, v.tag}
	}
	return out
}

func (i *interpreter) panicWhere() string {
	var parts []string
	st := i.panicStack
	for k := len(st) - 1; k >= 0 && len(parts) < 8; k-- {
		parts = append(parts, st[k].String())
	}
	return strings.Join(parts, " < ")
}

func isStdlibPath(path string) bool {
	first := path
	if i := strings.IndexByte(path, '/'); i >= 0 {
		first = path[:i]
	}
	return !strings.Contains(first, ".")
}

// isFlatType: scalars, and structs / arrays of flat types (no pointers, slices, maps, channels, functions, interfaces).
func isFlatType(t types.Type) bool {
	switch u := t.Underlying().(type) {
	case *types.Basic:
		return u.Kind() != types.UnsafePointer
	case *types.Struct:
		for k := 0; k < u.NumFields(); k++ {
			if !isFlatType(u.Field(k).Type()) {
				return false
			}
		}
		return true
	case *types.Array:
		return u.Len() <= 64 && isFlatType(u.Elem())
	}
	return false
}

func copyFlat(v value) value {
	switch x := v.(type) {
	case structure:
		out := make(structure, len(x))
		for k := range x {
			out[k] = copyFlat(x[k])
		}
		return out
	case array:
		out := make(array, len(x))
		for k := range x {
			out[k] = copyFlat(x[k])
		}
		return out
	}
	return v
}
