package interp

// Symbolic terms: a small DAG of SMT-LIB2 bit-vector / Bool / Float64 terms
// with constant folding at construction time.  No global state: terms are
// plain heap objects, sharing arises from Go pointer sharing, the printer
// introduces `let` for shared nodes.

import (
	"fmt"
	"math"
	"math/bits"
	"strings"
)

type Term struct {
	op   string // "const", "var", or an SMT-LIB operator ("bvadd", "ite", "extract", ...)
	w    int    // bit width; 0 = Bool; -64 = Float64 (FloatingPoint 11 53)
	val  uint64 // for const (w<=64): value (masked); Bool: 0/1; Float64: IEEE bits
	name string // for var
	args []*Term
	p1   int // extract hi / extend amount
	p2   int // extract lo
	size int // node count upper bound (tree size, saturating)
}

const wFloat = -64

func mask(w int) uint64 {
	if w >= 64 {
		return ^uint64(0)
	}
	return (uint64(1) << uint(w)) - 1
}

func (t *Term) isConst() bool { return t.op == "const" }
func (t *Term) isBool() bool  { return t.w == 0 }

func mkConst(v uint64, w int) *Term {
	if w == 0 {
		if v != 0 {
			return tTrue
		}
		return tFalse
	}
	if w > 0 && w <= 64 {
		v &= mask(w)
	}
	return &Term{op: "const", w: w, val: v, size: 1}
}

var tTrue = &Term{op: "const", w: 0, val: 1, size: 1}
var tFalse = &Term{op: "const", w: 0, val: 0, size: 1}

func mkBool(b bool) *Term {
	if b {
		return tTrue
	}
	return tFalse
}

func mkVar(name string, w int) *Term { return &Term{op: "var", w: w, name: name, size: 1} }

func mkRaw(op string, w int, args ...*Term) *Term {
	sz := 1
	for _, a := range args {
		sz += a.size
		if sz > 1<<30 {
			sz = 1 << 30
		}
	}
	return &Term{op: op, w: w, args: args, size: sz}
}

func sext(v uint64, w int) int64 {
	if w >= 64 {
		return int64(v)
	}
	sh := uint(64 - w)
	return int64(v<<sh) >> sh
}

// sameTerm: cheap structural identity (pointer, or equal leaves).
func sameTerm(a, b *Term) bool {
	if a == b {
		return true
	}
	if a.op != b.op || a.w != b.w {
		return false
	}
	switch a.op {
	case "const":
		return a.val == b.val
	case "var":
		return a.name == b.name
	}
	if len(a.args) != len(b.args) || a.p1 != b.p1 || a.p2 != b.p2 || a.size > 64 || a.name != b.name {
		return false
	}
	for i := range a.args {
		if !sameTerm(a.args[i], b.args[i]) {
			return false
		}
	}
	return true
}

// ---- Bool constructors ----

func mkNot(a *Term) *Term {
	if a.isConst() {
		return mkBool(a.val == 0)
	}
	if a.op == "not" {
		return a.args[0]
	}
	return mkRaw("not", 0, a)
}

func mkAnd(xs ...*Term) *Term {
	var out []*Term
	for _, x := range xs {
		if x.isConst() {
			if x.val == 0 {
				return tFalse
			}
			continue
		}
		if x.op == "and" {
			out = append(out, x.args...)
			continue
		}
		out = append(out, x)
	}
	switch len(out) {
	case 0:
		return tTrue
	case 1:
		return out[0]
	}
	return mkRaw("and", 0, out...)
}

func mkOr(xs ...*Term) *Term {
	var out []*Term
	for _, x := range xs {
		if x.isConst() {
			if x.val != 0 {
				return tTrue
			}
			continue
		}
		if x.op == "or" {
			out = append(out, x.args...)
			continue
		}
		out = append(out, x)
	}
	switch len(out) {
	case 0:
		return tFalse
	case 1:
		return out[0]
	}
	return mkRaw("or", 0, out...)
}

func mkIte(c, a, b *Term) *Term {
	if c.isConst() {
		if c.val != 0 {
			return a
		}
		return b
	}
	if sameTerm(a, b) {
		return a
	}
	if a.w == 0 && a.isConst() && b.isConst() {
		if a.val != 0 {
			return c
		}
		return mkNot(c)
	}
	return mkRaw("ite", a.w, c, a, b)
}

func mkEq(a, b *Term) *Term {
	if a.w != b.w {
		panic(fmt.Sprintf("mkEq: width mismatch %d vs %d (%s, %s)", a.w, b.w, a.op, b.op))
	}
	if a.isConst() && b.isConst() {
		if a.w == wFloat {
			return mkBool(math.Float64frombits(a.val) == math.Float64frombits(b.val))
		}
		return mkBool(a.val == b.val)
	}
	if a.w != wFloat && sameTerm(a, b) {
		return tTrue
	}
	if a.w == wFloat {
		return mkRaw("fp.eq", 0, a, b)
	}
	if a.w == 0 {
		if a.isConst() {
			a, b = b, a
		}
		if b.isConst() {
			if b.val != 0 {
				return a
			}
			return mkNot(a)
		}
	}
	// (= (ite c k1 k2) k) with constants folds to a condition
	if b.isConst() && a.op == "ite" && a.args[1].isConst() && a.args[2].isConst() {
		return mkIte(a.args[0], mkEq(a.args[1], b), mkEq(a.args[2], b))
	}
	if a.isConst() && b.op == "ite" && b.args[1].isConst() && b.args[2].isConst() {
		return mkIte(b.args[0], mkEq(b.args[1], a), mkEq(b.args[2], a))
	}
	// (= (zero_extend x) k): compare at the narrow width
	if b.isConst() && a.op == "zero_extend" {
		x := a.args[0]
		if b.val&^mask(x.w) != 0 {
			return tFalse
		}
		return mkEq(x, mkConst(b.val, x.w))
	}
	return mkRaw("=", 0, a, b)
}

// ---- bit-vector constructors ----

func mkBin(op string, a, b *Term) *Term {
	if a.w != b.w {
		panic(fmt.Sprintf("mkBin %s: width mismatch %d vs %d", op, a.w, b.w))
	}
	w := a.w
	if a.isConst() && b.isConst() && w <= 64 {
		x, y := a.val, b.val
		switch op {
		case "bvadd":
			return mkConst(x+y, w)
		case "bvsub":
			return mkConst(x-y, w)
		case "bvmul":
			return mkConst(x*y, w)
		case "bvand":
			return mkConst(x&y, w)
		case "bvor":
			return mkConst(x|y, w)
		case "bvxor":
			return mkConst(x^y, w)
		case "bvudiv":
			if y == 0 {
				return mkConst(mask(w), w)
			}
			return mkConst(x/y, w)
		case "bvurem":
			if y == 0 {
				return mkConst(x, w)
			}
			return mkConst(x%y, w)
		case "bvsdiv":
			sx, sy := sext(x, w), sext(y, w)
			if sy == 0 {
				if sx < 0 {
					return mkConst(1, w)
				}
				return mkConst(mask(w), w)
			}
			if sy == -1 {
				return mkConst(uint64(-sx), w)
			}
			return mkConst(uint64(sx/sy), w)
		case "bvsrem":
			sx, sy := sext(x, w), sext(y, w)
			if sy == 0 {
				return mkConst(x, w)
			}
			if sy == -1 {
				return mkConst(0, w)
			}
			return mkConst(uint64(sx%sy), w)
		case "bvshl":
			if y >= uint64(w) {
				return mkConst(0, w)
			}
			return mkConst(x<<y, w)
		case "bvlshr":
			if y >= uint64(w) {
				return mkConst(0, w)
			}
			return mkConst(x>>y, w)
		case "bvashr":
			sx := sext(x, w)
			if y >= uint64(w) {
				y = uint64(w - 1)
			}
			return mkConst(uint64(sx>>y), w)
		}
	}
	// identities
	switch op {
	case "bvadd", "bvor", "bvxor":
		if a.isConst() && a.val == 0 {
			return b
		}
		if b.isConst() && b.val == 0 {
			return a
		}
	case "bvsub", "bvshl", "bvlshr", "bvashr":
		if b.isConst() && b.val == 0 {
			return a
		}
	case "bvmul":
		if a.isConst() && a.val == 1 {
			return b
		}
		if b.isConst() && b.val == 1 {
			return a
		}
		if (a.isConst() && a.val == 0 && w <= 64) || (b.isConst() && b.val == 0 && w <= 64) {
			return mkConst(0, w)
		}
	case "bvand":
		if (a.isConst() && a.val == 0 && w <= 64) || (b.isConst() && b.val == 0 && w <= 64) {
			return mkConst(0, w)
		}
		if a.isConst() && w <= 64 && a.val == mask(w) {
			return b
		}
		if b.isConst() && w <= 64 && b.val == mask(w) {
			return a
		}
	case "bvudiv", "bvsdiv":
		if b.isConst() && b.val == 1 {
			return a
		}
	}
	return mkRaw(op, w, a, b)
}

func mkCmp(op string, a, b *Term) *Term {
	if a.w != b.w {
		panic(fmt.Sprintf("mkCmp %s: width mismatch %d vs %d", op, a.w, b.w))
	}
	w := a.w
	if a.isConst() && b.isConst() && w <= 64 {
		x, y := a.val, b.val
		sx, sy := sext(x, w), sext(y, w)
		switch op {
		case "bvult":
			return mkBool(x < y)
		case "bvule":
			return mkBool(x <= y)
		case "bvugt":
			return mkBool(x > y)
		case "bvuge":
			return mkBool(x >= y)
		case "bvslt":
			return mkBool(sx < sy)
		case "bvsle":
			return mkBool(sx <= sy)
		case "bvsgt":
			return mkBool(sx > sy)
		case "bvsge":
			return mkBool(sx >= sy)
		}
	}
	// comparisons of a zero-extended narrow value against a constant: compare narrow
	if b.isConst() && a.op == "zero_extend" && w <= 64 {
		x := a.args[0]
		nonneg := sext(b.val, w) >= 0
		big := b.val&^mask(x.w) != 0 // constant does not fit the narrow width
		switch op {
		case "bvult", "bvule", "bvugt", "bvuge":
			if big {
				return mkBool(op == "bvult" || op == "bvule")
			}
			return mkCmp(op, x, mkConst(b.val, x.w))
		case "bvslt", "bvsle", "bvsgt", "bvsge":
			uop := map[string]string{"bvslt": "bvult", "bvsle": "bvule", "bvsgt": "bvugt", "bvsge": "bvuge"}[op]
			if !nonneg { // negative constant: zero-extended value is always greater
				return mkBool(op == "bvsgt" || op == "bvsge")
			}
			if big {
				return mkBool(op == "bvslt" || op == "bvsle")
			}
			return mkCmp(uop, x, mkConst(b.val, x.w))
		}
	}
	return mkRaw(op, 0, a, b)
}

func mkUn(op string, a *Term) *Term {
	if a.isConst() && a.w <= 64 {
		switch op {
		case "bvneg":
			return mkConst(-a.val, a.w)
		case "bvnot":
			return mkConst(^a.val, a.w)
		}
	}
	return mkRaw(op, a.w, a)
}

func mkExtract(hi, lo int, a *Term) *Term {
	w := hi - lo + 1
	if lo == 0 && w == a.w {
		return a
	}
	if a.isConst() && a.w <= 64 {
		return mkConst(a.val>>uint(lo), w)
	}
	if lo == 0 && (a.op == "zero_extend" || a.op == "sign_extend") {
		x := a.args[0]
		if w == x.w {
			return x
		}
		if w < x.w {
			return mkExtract(hi, 0, x)
		}
		return mkExtend(a.op == "sign_extend", w-x.w, x)
	}
	t := mkRaw("extract", w, a)
	t.p1, t.p2 = hi, lo
	return t
}

func mkExtend(signed bool, by int, a *Term) *Term {
	if by == 0 {
		return a
	}
	if a.isConst() && a.w+by <= 64 {
		if signed {
			return mkConst(uint64(sext(a.val, a.w)), a.w+by)
		}
		return mkConst(a.val, a.w+by)
	}
	op := "zero_extend"
	if signed {
		op = "sign_extend"
	}
	if !signed && a.op == "zero_extend" {
		by += a.p1
		a = a.args[0]
	}
	t := mkRaw(op, a.w+by, a)
	t.p1 = by
	return t
}

func mkConcat(a, b *Term) *Term {
	if a.isConst() && b.isConst() && a.w+b.w <= 64 {
		return mkConst(a.val<<uint(b.w)|b.val, a.w+b.w)
	}
	return mkRaw("concat", a.w+b.w, a, b)
}

// resize converts a to width w as Go's integer conversion does.
func mkResize(a *Term, w int, srcSigned bool) *Term {
	switch {
	case w == a.w:
		return a
	case w < a.w:
		return mkExtract(w-1, 0, a)
	default:
		return mkExtend(srcSigned, w-a.w, a)
	}
}

// ---- Float64 ----

func mkFConst(f float64) *Term {
	return &Term{op: "const", w: wFloat, val: math.Float64bits(f), size: 1}
}

func mkFBin(op string, a, b *Term) *Term {
	if a.isConst() && b.isConst() {
		x, y := math.Float64frombits(a.val), math.Float64frombits(b.val)
		switch op {
		case "fp.add":
			return mkFConst(x + y)
		case "fp.sub":
			return mkFConst(x - y)
		case "fp.mul":
			return mkFConst(x * y)
		case "fp.div":
			return mkFConst(x / y)
		}
	}
	return mkRaw(op, wFloat, a, b)
}

func mkFCmp(op string, a, b *Term) *Term {
	if a.isConst() && b.isConst() {
		x, y := math.Float64frombits(a.val), math.Float64frombits(b.val)
		switch op {
		case "fp.lt":
			return mkBool(x < y)
		case "fp.leq":
			return mkBool(x <= y)
		case "fp.gt":
			return mkBool(x > y)
		case "fp.geq":
			return mkBool(x >= y)
		case "fp.eq":
			return mkBool(x == y)
		}
	}
	return mkRaw(op, 0, a, b)
}

// ---- printing ----

func sortOf(w int) string {
	switch {
	case w == 0:
		return "Bool"
	case w == wFloat:
		return "(_ FloatingPoint 11 53)"
	}
	return fmt.Sprintf("(_ BitVec %d)", w)
}

func constText(t *Term) string {
	switch {
	case t.w == 0:
		if t.val != 0 {
			return "true"
		}
		return "false"
	case t.w == wFloat:
		b := t.val
		return fmt.Sprintf("(fp #b%d #b%011b #x%013x)", b>>63, (b>>52)&0x7ff, b&((1<<52)-1))
	case t.w%4 == 0 && t.w <= 64:
		return fmt.Sprintf("#x%0*x", t.w/4, t.val)
	case t.w <= 64:
		return fmt.Sprintf("#b%0*b", t.w, t.val)
	}
	return fmt.Sprintf("(_ bv%d %d)", t.val, t.w)
}

// smt renders t as SMT-LIB2 text, introducing let-bindings for shared nodes.
func smt(t *Term) string {
	if t.size <= 40 {
		var sb strings.Builder
		printTree(&sb, t, nil)
		return sb.String()
	}
	refs := map[*Term]int{}
	var order []*Term
	var count func(x *Term)
	count = func(x *Term) {
		refs[x]++
		if refs[x] > 1 || len(x.args) == 0 {
			return
		}
		for _, a := range x.args {
			count(a)
		}
		order = append(order, x) // post-order: children first
	}
	count(t)
	names := map[*Term]string{}
	var sb strings.Builder
	n := 0
	for _, x := range order {
		if x == t || refs[x] < 2 {
			continue
		}
		nm := fmt.Sprintf("l!%d", len(names))
		sb.WriteString("(let ((")
		sb.WriteString(nm)
		sb.WriteString(" ")
		printTree(&sb, x, names)
		sb.WriteString(")) ")
		names[x] = nm
		n++
	}
	printTree(&sb, t, names)
	for i := 0; i < n; i++ {
		sb.WriteString(")")
	}
	return sb.String()
}

func printTree(sb *strings.Builder, t *Term, names map[*Term]string) {
	if nm, ok := names[t]; ok {
		sb.WriteString(nm)
		return
	}
	switch t.op {
	case "const":
		sb.WriteString(constText(t))
		return
	case "var":
		sb.WriteString(t.name)
		return
	case "extract":
		fmt.Fprintf(sb, "((_ extract %d %d) ", t.p1, t.p2)
	case "zero_extend", "sign_extend":
		fmt.Fprintf(sb, "((_ %s %d) ", t.op, t.p1)
	case "to_fp_s": // signed bv -> float64, RNE
		sb.WriteString("((_ to_fp 11 53) RNE ")
	case "to_fp_u":
		sb.WriteString("((_ to_fp_unsigned 11 53) RNE ")
	case "to_fp_bits": // reinterpret 64 bits
		sb.WriteString("((_ to_fp 11 53) ")
	case "fp.to_sbv":
		fmt.Fprintf(sb, "((_ fp.to_sbv %d) RTZ ", t.w)
	case "fp.to_ubv":
		fmt.Fprintf(sb, "((_ fp.to_ubv %d) RTZ ", t.w)
	case "fp.add", "fp.sub", "fp.mul", "fp.div":
		fmt.Fprintf(sb, "(%s RNE ", t.op)
	case "uf":
		sb.WriteString("(" + t.name)
		for _, a := range t.args {
			sb.WriteString(" ")
			printTree(sb, a, names)
		}
		sb.WriteString(")")
		return
	case "mulhi64":
		sb.WriteString("((_ extract 127 64) (bvmul ((_ zero_extend 64) ")
		printTree(sb, t.args[0], names)
		sb.WriteString(") ((_ zero_extend 64) ")
		printTree(sb, t.args[1], names)
		sb.WriteString(")))")
		return
	case "addc64", "subb64":
		o := "bvadd"
		if t.op == "subb64" {
			o = "bvsub"
		}
		sb.WriteString("((_ zero_extend 63) ((_ extract 64 64) (" + o + " (" + o + " ((_ zero_extend 1) ")
		printTree(sb, t.args[0], names)
		sb.WriteString(") ((_ zero_extend 1) ")
		printTree(sb, t.args[1], names)
		sb.WriteString(")) ((_ zero_extend 1) ")
		printTree(sb, t.args[2], names)
		sb.WriteString("))))")
		return
	default:
		sb.WriteString("(")
		sb.WriteString(t.op)
		sb.WriteString(" ")
	}
	for i, a := range t.args {
		if i > 0 {
			sb.WriteString(" ")
		}
		printTree(sb, a, names)
	}
	sb.WriteString(")")
}

// ---- evaluation under a model (by substitution + folding) ----

type Model map[string]uint64

func evalTerm(t *Term, m Model, memo map[*Term]*Term) *Term {
	if r, ok := memo[t]; ok {
		return r
	}
	var r *Term
	switch t.op {
	case "const":
		r = t
	case "var":
		v, ok := m[t.name]
		if !ok {
			v = 0
		}
		r = mkConst(v, t.w)
		if t.w == wFloat {
			r = &Term{op: "const", w: wFloat, val: v, size: 1}
		}
	default:
		args := make([]*Term, len(t.args))
		for i, a := range t.args {
			args[i] = evalTerm(a, m, memo)
		}
		r = rebuild(t, args)
	}
	memo[t] = r
	return r
}

// rebuild re-applies the smart constructor for t.op to new args.
func rebuild(t *Term, a []*Term) *Term {
	switch t.op {
	case "not":
		return mkNot(a[0])
	case "and":
		return mkAnd(a...)
	case "or":
		return mkOr(a...)
	case "ite":
		return mkIte(a[0], a[1], a[2])
	case "=":
		return mkEq(a[0], a[1])
	case "bvadd", "bvsub", "bvmul", "bvand", "bvor", "bvxor", "bvudiv", "bvurem", "bvsdiv", "bvsrem", "bvshl", "bvlshr", "bvashr":
		return mkBin(t.op, a[0], a[1])
	case "bvult", "bvule", "bvugt", "bvuge", "bvslt", "bvsle", "bvsgt", "bvsge":
		return mkCmp(t.op, a[0], a[1])
	case "bvneg", "bvnot":
		return mkUn(t.op, a[0])
	case "extract":
		return mkExtract(t.p1, t.p2, a[0])
	case "zero_extend":
		return mkExtend(false, t.p1, a[0])
	case "sign_extend":
		return mkExtend(true, t.p1, a[0])
	case "concat":
		return mkConcat(a[0], a[1])
	case "mulhi64":
		return mkMulHi64(a[0], a[1])
	case "addc64", "subb64":
		return mkTern64(t.op, a[0], a[1], a[2])
	case "fp.add", "fp.sub", "fp.mul", "fp.div":
		return mkFBin(t.op, a[0], a[1])
	case "fp.lt", "fp.leq", "fp.gt", "fp.geq", "fp.eq":
		return mkFCmp(t.op, a[0], a[1])
	case "to_fp_s":
		if a[0].isConst() {
			return mkFConst(float64(sext(a[0].val, a[0].w)))
		}
	case "to_fp_u":
		if a[0].isConst() {
			return mkFConst(float64(a[0].val))
		}
	case "to_fp_bits":
		if a[0].isConst() {
			return &Term{op: "const", w: wFloat, val: a[0].val, size: 1}
		}
	case "fp.to_sbv":
		if a[0].isConst() {
			f := math.Float64frombits(a[0].val)
			return mkConst(uint64(int64(f)), t.w)
		}
	case "fp.to_ubv":
		if a[0].isConst() {
			f := math.Float64frombits(a[0].val)
			return mkConst(uint64(f), t.w)
		}
	case "fp.isNaN":
		if a[0].isConst() {
			return mkBool(math.IsNaN(math.Float64frombits(a[0].val)))
		}
	case "fp.isInfinite":
		if a[0].isConst() {
			return mkBool(math.IsInf(math.Float64frombits(a[0].val), 0))
		}
	case "fp.isNegative":
		if a[0].isConst() {
			f := math.Float64frombits(a[0].val)
			return mkBool(!math.IsNaN(f) && math.Signbit(f))
		}
	case "fp.neg":
		if a[0].isConst() {
			return mkFConst(-math.Float64frombits(a[0].val))
		}
	case "fp.abs":
		if a[0].isConst() {
			return mkFConst(math.Abs(math.Float64frombits(a[0].val)))
		}
	}
	n := *t
	n.args = a
	return &n
}

func mkTern64(op string, x, y, c *Term) *Term {
	if x.isConst() && y.isConst() && c.isConst() {
		switch op {
		case "addc64":
			_, r := bits.Add64(x.val, y.val, c.val&1)
			return mkConst(r, 64)
		case "subb64":
			_, r := bits.Sub64(x.val, y.val, c.val&1)
			return mkConst(r, 64)
		}
	}
	return mkRaw(op, 64, x, y, c)
}

func mkMulHi64(x, y *Term) *Term {
	if x.isConst() && y.isConst() {
		hi, _ := bits.Mul64(x.val, y.val)
		return mkConst(hi, 64)
	}
	return mkRaw("mulhi64", 64, x, y)
}

// substBindings rewrites t under var->const bindings (used for binding
// propagation along a path); memo is owned by the caller.
func substBindings(t *Term, b map[string]*Term, memo map[*Term]*Term) *Term {
	if len(b) == 0 || t.size == 1 && t.op != "var" {
		return t
	}
	if r, ok := memo[t]; ok {
		return r
	}
	var r *Term
	switch t.op {
	case "const":
		r = t
	case "var":
		if c, ok := b[t.name]; ok {
			r = c
		} else {
			r = t
		}
	default:
		changed := false
		args := make([]*Term, len(t.args))
		for i, a := range t.args {
			args[i] = substBindings(a, b, memo)
			if args[i] != a {
				changed = true
			}
		}
		if changed {
			r = rebuild(t, args)
		} else {
			r = t
		}
	}
	memo[t] = r
	return r
}
