package formula

import (
	"context"

	"github.com/ericlagergren/decimal"
)

func init() {
	vpHarnesses["VP_C04_entry_int"] = VP_C04_entry_int
}

// vpBigIsInt64: x is finite and equals n exactly (independent of Cmp).
func vpBigIsInt64(x *decimal.Big, n int64) bool {
	if x == nil || !x.IsFinite() {
		return false
	}
	m, ok := x.Mantissa()
	if !ok {
		return false
	}
	un := uint64(n)
	if n < 0 {
		un = uint64(-n)
	}
	if un == 0 {
		return m == 0
	}
	if x.Signbit() != (n < 0) {
		return false
	}
	e := -x.Scale()
	switch {
	case e == 0:
		return m == un
	case e > 0 && e <= 18:
		// m * 10^e == un without overflow
		p := uint64(vpPow10[0])
		for k := 0; k < e; k++ {
			p *= 10
		}
		return m <= un/p && m*p == un
	case e < 0 && e >= -18:
		p := uint64(1)
		for k := 0; k < -e; k++ {
			p *= 10
		}
		return un <= m/p && un*p == m
	}
	return false
}

// C04/entry-int: a Go int / int32 / int64 data value enters the computation
// with exactly its integer value (so a 64-bit integer field equals the same
// integer written as a literal).
func VP_C04_entry_int() {
	LO, HI := vpParam("LO"), vpParam("HI") // |n| in [2^LO, 2^HI) or n small when LO < 0
	n := vpInt64("n")
	if LO >= 0 {
		mag := n
		if n < 0 {
			mag = -n
		}
		vpAssume(n != -n || n == 0)
		vpAssume(mag >= int64(1)<<uint(LO) && (HI >= 63 || mag < int64(1)<<uint(HI)))
	} else {
		vpAssume(n > -1000 && n < 1000)
	}
	var dv interface{}
	switch vpChoice("type", 3) {
	case 0:
		dv = n
	case 1:
		dv = int(n)
	case 2:
		vpAssume(n >= -2147483648 && n <= 2147483647)
		dv = int32(n)
	}
	r := NewRunner()
	r.SetThis(map[string]interface{}{"v": dv})
	got, err := r.resolve(context.Background(), vpId("v"))
	vpAssert("C04/entry-int/no-error", err == nil)
	x, ok := got.(*decimal.Big)
	vpAssert("C04/entry-int/is-number", ok)
	if !ok {
		return
	}
	vpAssert("C04/entry-int/exact", vpBigIsInt64(x, n))
	vpReach("C04/entry-int/done")
}
