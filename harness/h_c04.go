package formula

import (
	"context"

	"github.com/ericlagergren/decimal"
)

func init() {
	vpHarnesses["VP_C04_entry_int"] = VP_C04_entry_int
	vpHarnesses["VP_C04_entry_float"] = VP_C04_entry_float
}

// vpBigIsInt64: x is finite and equals n exactly (independent of Cmp).
func vpBigIsInt64(x *decimal.Big, n int64) bool {
	if x == nil || !x.IsFinite() {
		return false
	}
	m, ok := x.Mantissa()
	if !ok {
		return false
	}
	un := uint64(n)
	if n < 0 {
		un = uint64(-n)
	}
	if un == 0 {
		return m == 0
	}
	if x.Signbit() != (n < 0) {
		return false
	}
	e := -x.Scale()
	switch {
	case e == 0:
		return m == un
	case e > 0 && e <= 18:
		// m * 10^e == un without overflow
		p := uint64(vpPow10[0])
		for k := 0; k < e; k++ {
			p *= 10
		}
		return m <= un/p && m*p == un
	case e < 0 && e >= -18:
		p := uint64(1)
		for k := 0; k < -e; k++ {
			p *= 10
		}
		return un <= m/p && un*p == m
	}
	return false
}

// C04/entry-int: a Go int / int32 / int64 data value enters the computation
// with exactly its integer value (so a 64-bit integer field equals the same
// integer written as a literal).
func VP_C04_entry_int() {
	LO, HI := vpParam("LO"), vpParam("HI") // |n| in [2^LO, 2^HI) or n small when LO < 0
	n := vpInt64("n")
	if LO >= 0 {
		mag := n
		if n < 0 {
			mag = -n
		}
		vpAssume(n != -n || n == 0)
		vpAssume(mag >= int64(1)<<uint(LO) && (HI >= 63 || mag < int64(1)<<uint(HI)))
	} else {
		vpAssume(n > -1000 && n < 1000)
	}
	var dv interface{}
	switch vpChoice("type", 3) {
	case 0:
		dv = n
	case 1:
		dv = int(n)
	case 2:
		vpAssume(n >= -2147483648 && n <= 2147483647)
		dv = int32(n)
	}
	r := NewRunner()
	r.SetThis(map[string]interface{}{"v": dv})
	got, err := vpExact(r, context.Background(), vpId("v"))
	vpAssert("C04/entry-int/no-error", err == nil)
	x, ok := got.(*decimal.Big)
	vpAssert("C04/entry-int/is-number", ok)
	if !ok {
		return
	}
	vpAssert("C04/entry-int/exact", vpBigIsInt64(x, n))
	vpReach("C04/entry-int/done")
}

// C04/entry-float: Go float64 data values enter the computation with exactly
// the decimal value they print as. Formatting a symbolic float cannot be
// encoded (strconv's shortest-representation algorithm), so the values come
// from a concrete pool chosen to include whole numbers beyond 2^53 and 2^63,
// values with no short binary representation, denormals and the extremes;
// the expected decimal (coefficient, exponent) is written out by hand.
func VP_C04_entry_float() {
	pool := []struct {
		f    float64
		neg  bool
		coef uint64
		exp  int
	}{
		{0.1, false, 1, -1}, {0.2, false, 2, -1}, {0.3, false, 3, -1}, {1.5, false, 15, -1}, {-2.25, true, 225, -2},
		{30.749999000000003, false, 30749999000000003, -15}, {9007199254740993, false, 9007199254740992, 0},
		{1e19, false, 1, 19}, {1.5e20, false, 15, 19}, {9223372036854775808, false, 9223372036854776, 3},
		{-1e19, true, 1, 19}, {1e22, false, 1, 22}, {123456.789, false, 123456789, -3}, {5e-324, false, 5, -324},
		{1.7976931348623157e308, false, 17976931348623157, 292}, {0, false, 0, 0}, {1e-7, false, 1, -7}, {4294967296.5, false, 42949672965, -1},
		// whole numbers between 2^54 and 2^63: the exact binary value differs from the decimal value they print as
		{1234567890123456768, false, 12345678901234568, 2}, {144115188075855872, false, 14411518807585587, 1}, {9223372036854774784, false, 9223372036854775, 3},
		{1152921504606847232, false, 11529215046068472, 2}, {1000000000000000128, false, 10000000000000001, 2}, {-4611686018427387904, true, 4611686018427388, 3},
		{18014398509481984, false, 18014398509481984, 0}, {float64(float32(0.1)), false, 10000000149011612, -17},
	}
	p := pool[vpChoice("f", len(pool))]
	r := NewRunner()
	r.SetThis(map[string]interface{}{"v": p.f})
	got, err := vpExact(r, context.Background(), vpId("v"))
	x, ok := got.(*decimal.Big)
	vpAssert("C04/entry-float/is-number", err == nil && ok && x != nil)
	if !ok || x == nil {
		return
	}
	want := new(decimal.Big).SetMantScale(int64(p.coef), -p.exp)
	if p.coef > 1<<63-1 {
		want = new(decimal.Big).SetUint64(p.coef)
		want.SetScale(-p.exp)
	}
	if p.neg {
		want.SetSignbit(true)
	}
	vpAssert("C04/entry-float/exact-decimal-value-it-prints-as", x.IsFinite() && x.Cmp(want) == 0 && (p.coef == 0 || x.Signbit() == p.neg))
	vpReach("C04/entry-float/done")
}
