package formula

import (
	"context"
	"time"

	"github.com/ericlagergren/decimal"
)

func init() {
	vpHarnesses["VP_C06_truthiness"] = VP_C06_truthiness
}

const (
	vtNull = iota
	vtTypedNil
	vtBool
	vtFinite
	vtNaN
	vtInf
	vtString
	vtArray
	vtEmptyArray
	vtMap
	vtTime
	vtFunc
	vtNilSlice
	vtNilMap
	vtCount
)

// vpCondValue draws a condition value and returns it with its truthiness per
// the statement (exactly null, false, numeric zero, NaN and '' are falsy).
func vpCondValue() (v interface{}, truthy bool, kind int) {
	kind = vpChoice("ck", vtCount)
	switch kind {
	case vtNull:
		return nil, false, kind
	case vtTypedNil:
		return (*int)(nil), false, kind
	case vtBool:
		b := vpBool("cb")
		return b, b, kind
	case vtFinite:
		n := vpSymNum("c", 1000, 1)
		return n.big(), n.coef != 0, kind
	case vtNaN:
		return new(decimal.Big).SetNaN(vpBool("sig")), false, kind
	case vtInf:
		return new(decimal.Big).SetInf(vpBool("neg")), true, kind
	case vtString:
		s := vpBytes("cs", vpChoice("cl", 3))
		return string(s), len(s) > 0, kind
	case vtArray:
		return []interface{}{nil}, true, kind
	case vtEmptyArray:
		return []interface{}{}, true, kind
	case vtMap:
		return map[string]interface{}{}, true, kind
	case vtTime:
		return time.Time{}, true, kind
	case vtFunc:
		return func() (int, error) { return 0, nil }, true, kind
	case vtNilSlice:
		return []interface{}(nil), true, kind // what the empty array literal [] evaluates to
	case vtNilMap:
		return map[string]interface{}(nil), true, kind
	}
	return nil, false, kind
}

func vpLit(tok SyntaxKind, val string) *LiteralExpression { return &LiteralExpression{Token: tok, Value: val} }

// vpSame: the selected operand's value handed back unchanged.
func vpSame(got, want interface{}) bool {
	switch w := want.(type) {
	case nil:
		return got == nil
	case *decimal.Big:
		g, ok := got.(*decimal.Big)
		return ok && g == w
	case string:
		g, ok := got.(string)
		return ok && g == w
	case bool:
		g, ok := got.(bool)
		return ok && g == w
	}
	return false
}

// C06/truthiness: one notion of truthiness drives !!, !, ?:, &&, ||, ??.
func VP_C06_truthiness() {
	ctx := context.Background()
	c, truthy, kind := vpCondValue()
	px := new(decimal.Big).SetMantScale(7, 0)
	data := map[string]interface{}{"c": c, "x": px, "y": "right"}
	r := NewRunner()
	r.SetThis(data)
	which := vpChoice("expr", 10)
	vpObserve("case", kind, which, truthy)
	switch which {
	case 0: // !!c
		v, err := r.resolve(ctx, &PrefixUnaryExpression{Operator: &TokenNode{Token: SK_ExclamationExclamation}, Operand: vpId("c")})
		b, ok := v.(bool)
		vpAssert("C06/bangbang/is-truthiness", err == nil && ok && b == truthy)
	case 1: // !c (booleans, numbers and null)
		// a typed nil pointer under '!' is not covered by the statement (don't-care)
		if !(kind == vtNull || kind == vtBool || kind == vtFinite || kind == vtNaN || kind == vtInf) {
			return
		}
		v, err := r.resolve(ctx, &PrefixUnaryExpression{Operator: &TokenNode{Token: SK_Exclamation}, Operand: vpId("c")})
		b, ok := v.(bool)
		vpAssert("C06/not/is-negated-truthiness", err == nil && ok && b == !truthy)
	case 2: // c ? ($t = x) : ($u = y): only the selected branch is evaluated
		e := &ConditionalExpression{Condition: vpId("c"), QuestionTok: &TokenNode{Token: SK_Question}, ColonTok: &TokenNode{Token: SK_Colon},
			WhenTrue:  &ParenthesizedExpression{Expression: vpBin(SK_Equals, vpId("$t"), vpId("x"))},
			WhenFalse: &ParenthesizedExpression{Expression: vpBin(SK_Equals, vpId("$u"), vpId("y"))}}
		v, err := r.resolve(ctx, e)
		_, tSet := data["$t"]
		_, uSet := data["$u"]
		vpAssert("C06/conditional/no-error", err == nil)
		if truthy {
			vpAssert("C06/conditional/selects-true-branch", vpSame(v, px))
			vpAssert("C06/conditional/only-selected-branch-evaluated", tSet && !uSet)
		} else {
			vpAssert("C06/conditional/selects-false-branch", vpSame(v, "right"))
			vpAssert("C06/conditional/only-selected-branch-evaluated", uSet && !tSet)
		}
	case 3: // c && y
		v, err := r.resolve(ctx, vpBin(SK_AmpersandAmpersand, vpId("c"), vpId("y")))
		vpAssert("C06/and/no-error", err == nil)
		if truthy {
			vpAssert("C06/and/yields-right-when-truthy", vpSame(v, "right"))
		} else {
			vpAssert("C06/and/yields-left-when-falsy", vpSameCond(v, c, kind))
		}
	case 4: // c || x
		v, err := r.resolve(ctx, vpBin(SK_BarBar, vpId("c"), vpId("x")))
		vpAssert("C06/or/no-error", err == nil)
		if truthy {
			vpAssert("C06/or/yields-left-when-truthy", vpSameCond(v, c, kind))
		} else {
			vpAssert("C06/or/yields-right-when-falsy", vpSame(v, px))
		}
	case 5: // c ?? x
		v, err := r.resolve(ctx, vpBin(SK_QuestionQuestion, vpId("c"), vpId("x")))
		vpAssert("C06/coalesce/no-error", err == nil)
		if kind == vtNull || kind == vtTypedNil {
			vpAssert("C06/coalesce/yields-right-when-null", vpSame(v, px))
		} else {
			vpAssert("C06/coalesce/yields-left-unless-null", vpSameCond(v, c, kind))
		}
	case 6: // nested: (c && y) ? x : (c || y)
		e := &ConditionalExpression{Condition: &ParenthesizedExpression{Expression: vpBin(SK_AmpersandAmpersand, vpId("c"), vpId("y"))},
			QuestionTok: &TokenNode{Token: SK_Question}, ColonTok: &TokenNode{Token: SK_Colon},
			WhenTrue: vpId("x"), WhenFalse: &ParenthesizedExpression{Expression: vpBin(SK_BarBar, vpId("c"), vpId("y"))}}
		v, err := r.resolve(ctx, e)
		vpAssert("C06/nested/no-error", err == nil)
		if truthy {
			vpAssert("C06/nested/truthy", vpSame(v, px))
		} else {
			vpAssert("C06/nested/falsy", vpSame(v, "right"))
		}
	case 9: // c ? c : ($u = y): the unselected branch must not run even when the true branch repeats the condition
		e := &ConditionalExpression{Condition: vpId("c"), QuestionTok: &TokenNode{Token: SK_Question}, ColonTok: &TokenNode{Token: SK_Colon},
			WhenTrue: vpId("c"), WhenFalse: &ParenthesizedExpression{Expression: vpBin(SK_Equals, vpId("$u"), vpId("y"))}}
		v, err := r.resolve(ctx, e)
		_, uSet := data["$u"]
		vpAssert("C06/conditional-same-ref/no-error", err == nil)
		if truthy {
			vpAssert("C06/conditional-same-ref/yields-condition-value", vpSameCond(v, c, kind))
			vpAssert("C06/conditional-same-ref/only-selected-branch-evaluated", !uSet)
		} else {
			vpAssert("C06/conditional-same-ref/selects-false-branch", vpSame(v, "right") && uSet)
		}
	case 7, 8: // nested through the real parser: the conditional associates to the right
		text := "c ? 'A' : 0 ? 'B' : 'C'"
		wantT, wantF := "A", "C"
		if which == 8 {
			text = "c ? 1 ? 'A' : 'B' : y ? 'C' : 'D'"
			wantT, wantF = "A", "C"
		}
		code, perr := ParseSourceCode([]byte(text))
		vpAssert("C06/nested-text/parses", perr == nil)
		if perr != nil {
			return
		}
		v, err := r.resolve(ctx, code.Expression)
		vpAssert("C06/nested-text/no-error", err == nil)
		if truthy {
			vpAssert("C06/nested-text/truthy", vpSame(v, wantT))
		} else {
			vpAssert("C06/nested-text/falsy", vpSame(v, wantF))
		}
	}
	vpReach("C06/done")
}

// vpSameCond: result equals the condition value itself (null kinds compare as null).
func vpSameCond(got, c interface{}, kind int) bool {
	switch kind {
	case vtNull, vtTypedNil:
		return IsNull(got)
	case vtBool, vtString, vtFinite, vtNaN, vtInf:
		return vpSame(got, c)
	case vtArray, vtEmptyArray:
		g, ok := got.([]interface{})
		return ok && len(g) == len(c.([]interface{}))
	case vtMap:
		_, ok := got.(map[string]interface{})
		return ok
	case vtTime:
		g, ok := got.(time.Time)
		return ok && g.IsZero()
	case vtFunc:
		_, ok := got.(func() (int, error))
		return ok
	case vtNilSlice:
		g, ok := got.([]interface{})
		return ok && len(g) == 0
	case vtNilMap:
		g, ok := got.(map[string]interface{})
		return ok && len(g) == 0
	}
	return false
}
