package formula

import (
	"context"
	"time"

	"github.com/ericlagergren/decimal"
)

func init() {
	vpHarnesses["VP_C06_truthiness"] = VP_C06_truthiness
}

const (
	vtNull = iota
	vtTypedNil
	vtBool
	vtFinite
	vtNaN
	vtInf
	vtString
	vtArray
	vtEmptyArray
	vtMap
	vtTime
	vtFunc
	vtNilSlice
	vtNilMap
	vtCount
)

// vpCondValue draws a condition value and returns it with its truthiness per
// the statement (exactly null, false, numeric zero, NaN and ” are falsy).
func vpCondValue() (v interface{}, truthy bool, kind int) {
	kind = vpChoice("ck", vtCount)
	switch kind {
	case vtNull:
		return nil, false, kind
	case vtTypedNil:
		return (*int)(nil), false, kind
	case vtBool:
		b := vpBool("cb")
		return b, b, kind
	case vtFinite:
		n := vpSymNum("c", 1000, 1)
		return n.big(), n.coef != 0, kind
	case vtNaN:
		return new(decimal.Big).SetNaN(vpBool("sig")), false, kind
	case vtInf:
		return new(decimal.Big).SetInf(vpBool("neg")), true, kind
	case vtString:
		s := vpBytes("cs", vpChoice("cl", 3))
		return string(s), len(s) > 0, kind
	case vtArray:
		return []interface{}{nil}, true, kind
	case vtEmptyArray:
		return []interface{}{}, true, kind
	case vtMap:
		return map[string]interface{}{}, true, kind
	case vtTime:
		return time.Time{}, true, kind
	case vtFunc:
		return func() (int, error) { return 0, nil }, true, kind
	case vtNilSlice:
		return []interface{}(nil), true, kind // what the empty array literal [] evaluates to
	case vtNilMap:
		return map[string]interface{}(nil), true, kind
	}
	return nil, false, kind
}

func vpLit(tok SyntaxKind, val string) *LiteralExpression {
	return &LiteralExpression{Token: tok, Value: val}
}

// vpSame: the selected operand's value handed back unchanged.
func vpSame(got, want interface{}) bool {
	switch w := want.(type) {
	case nil:
		return got == nil
	case *decimal.Big:
		g, ok := got.(*decimal.Big)
		return ok && g == w
	case string:
		g, ok := got.(string)
		return ok && g == w
	case bool:
		g, ok := got.(bool)
		return ok && g == w
	}
	return false
}

// C06/truthiness: one notion of truthiness drives !!, !, ?:, &&, ||, ??.
func VP_C06_truthiness() {
	ctx := context.Background()
	c, truthy, kind := vpCondValue()
	px := new(decimal.Big).SetMantScale(7, 0)
	data := map[string]interface{}{"c": c, "x": px, "y": "right"}
	r := NewRunner()
	r.SetThis(data)
	which := vpChoice("expr", 10)
	vpObserve("case", kind, which, truthy)
	switch which {
	case 0: // !!c
		v, err := vpExact(r, ctx, &PrefixUnaryExpression{Operator: &TokenNode{Token: SK_ExclamationExclamation}, Operand: vpId("c")})
		b, ok := v.(bool)
		vpAssert("C06/bangbang/is-truthiness", err == nil && ok && b == truthy)
	case 1: // !c (booleans, numbers and null)
		// a typed nil pointer under '!' is not covered by the statement (don't-care)
		if !(kind == vtNull || kind == vtBool || kind == vtFinite || kind == vtNaN || kind == vtInf) {
			return
		}
		v, err := vpExact(r, ctx, &PrefixUnaryExpression{Operator: &TokenNode{Token: SK_Exclamation}, Operand: vpId("c")})
		b, ok := v.(bool)
		vpAssert("C06/not/is-negated-truthiness", err == nil && ok && b == !truthy)
	case 2: // c ? ($t = x) : ($u = y): only the selected branch is evaluated
		e := &ConditionalExpression{Condition: vpId("c"), QuestionTok: &TokenNode{Token: SK_Question}, ColonTok: &TokenNode{Token: SK_Colon},
			WhenTrue:  &ParenthesizedExpression{Expression: vpBin(SK_Equals, vpId("$t"), vpId("x"))},
			WhenFalse: &ParenthesizedExpression{Expression: vpBin(SK_Equals, vpId("$u"), vpId("y"))}}
		v, err := vpExact(r, ctx, e)
		_, tSet := data["$t"]
		_, uSet := data["$u"]
		vpAssert("C06/conditional/no-error", err == nil)
		if truthy {
			vpAssert("C06/conditional/selects-true-branch", vpSame(v, px))
			vpAssert("C06/conditional/only-selected-branch-evaluated", tSet && !uSet)
		} else {
			vpAssert("C06/conditional/selects-false-branch", vpSame(v, "right"))
			vpAssert("C06/conditional/only-selected-branch-evaluated", uSet && !tSet)
		}
	case 3: // c && y
		v, err := vpExact(r, ctx, vpBin(SK_AmpersandAmpersand, vpId("c"), vpId("y")))
		vpAssert("C06/and/no-error", err == nil)
		if truthy {
			vpAssert("C06/and/yields-right-when-truthy", vpSame(v, "right"))
		} else {
			vpAssert("C06/and/yields-left-when-falsy", vpSameCond(v, c, kind))
		}
	case 4: // c || x
		v, err := vpExact(r, ctx, vpBin(SK_BarBar, vpId("c"), vpId("x")))
		vpAssert("C06/or/no-error", err == nil)
		if truthy {
			vpAssert("C06/or/yields-left-when-truthy", vpSameCond(v, c, kind))
		} else {
			vpAssert("C06/or/yields-right-when-falsy", vpSame(v, px))
		}
	case 5: // c ?? x
		v, err := vpExact(r, ctx, vpBin(SK_QuestionQuestion, vpId("c"), vpId("x")))
		vpAssert("C06/coalesce/no-error", err == nil)
		if kind == vtNull || kind == vtTypedNil {
			vpAssert("C06/coalesce/yields-right-when-null", vpSame(v, px))
		} else {
			vpAssert("C06/coalesce/yields-left-unless-null", vpSameCond(v, c, kind))
		}
	case 6: // nested: (c && y) ? x : (c || y)
		e := &ConditionalExpression{Condition: &ParenthesizedExpression{Expression: vpBin(SK_AmpersandAmpersand, vpId("c"), vpId("y"))},
			QuestionTok: &TokenNode{Token: SK_Question}, ColonTok: &TokenNode{Token: SK_Colon},
			WhenTrue: vpId("x"), WhenFalse: &ParenthesizedExpression{Expression: vpBin(SK_BarBar, vpId("c"), vpId("y"))}}
		v, err := vpExact(r, ctx, e)
		vpAssert("C06/nested/no-error", err == nil)
		if truthy {
			vpAssert("C06/nested/truthy", vpSame(v, px))
		} else {
			vpAssert("C06/nested/falsy", vpSame(v, "right"))
		}
	case 9: // c ? c : ($u = y): the unselected branch must not run even when the true branch repeats the condition
		e := &ConditionalExpression{Condition: vpId("c"), QuestionTok: &TokenNode{Token: SK_Question}, ColonTok: &TokenNode{Token: SK_Colon},
			WhenTrue: vpId("c"), WhenFalse: &ParenthesizedExpression{Expression: vpBin(SK_Equals, vpId("$u"), vpId("y"))}}
		v, err := vpExact(r, ctx, e)
		_, uSet := data["$u"]
		vpAssert("C06/conditional-same-ref/no-error", err == nil)
		if truthy {
			vpAssert("C06/conditional-same-ref/yields-condition-value", vpSameCond(v, c, kind))
			vpAssert("C06/conditional-same-ref/only-selected-branch-evaluated", !uSet)
		} else {
			vpAssert("C06/conditional-same-ref/selects-false-branch", vpSame(v, "right") && uSet)
		}
	case 7, 8: // nested through the real parser: the conditional associates to the right
		text := "c ? 'A' : 0 ? 'B' : 'C'"
		wantT, wantF := "A", "C"
		if which == 8 {
			text = "c ? 1 ? 'A' : 'B' : y ? 'C' : 'D'"
			wantT, wantF = "A", "C"
		}
		code, perr := ParseSourceCode([]byte(text))
		vpAssert("C06/nested-text/parses", perr == nil)
		if perr != nil {
			return
		}
		v, err := vpExact(r, ctx, code.Expression)
		vpAssert("C06/nested-text/no-error", err == nil)
		if truthy {
			vpAssert("C06/nested-text/truthy", vpSame(v, wantT))
		} else {
			vpAssert("C06/nested-text/falsy", vpSame(v, wantF))
		}
	}
	vpReach("C06/done")
}

// vpSameCond: result equals the condition value itself (null kinds compare as null).
func vpSameCond(got, c interface{}, kind int) bool {
	switch kind {
	case vtNull, vtTypedNil:
		return IsNull(got)
	case vtBool, vtString, vtFinite, vtNaN, vtInf:
		return vpSame(got, c)
	case vtArray, vtEmptyArray:
		g, ok := got.([]interface{})
		return ok && len(g) == len(c.([]interface{}))
	case vtMap:
		_, ok := got.(map[string]interface{})
		return ok
	case vtTime:
		g, ok := got.(time.Time)
		return ok && g.IsZero()
	case vtFunc:
		_, ok := got.(func() (int, error))
		return ok
	case vtNilSlice:
		g, ok := got.([]interface{})
		return ok && len(g) == 0
	case vtNilMap:
		g, ok := got.(map[string]interface{})
		return ok && len(g) == 0
	}
	return false
}

func init() {
	vpHarnesses["VP_C06_effects"] = VP_C06_effects
	vpHarnesses["VP_C06_reeval"] = VP_C06_reeval
}

func vpSmallCond(name string) (interface{}, bool) {
	switch vpChoice(name, 8) {
	case 0:
		return nil, false
	case 1:
		return true, true
	case 2:
		return false, false
	case 3:
		return "", false
	case 4:
		return "s", true
	case 5:
		return decimal.New(0, 0), false
	case 6:
		return decimal.New(15, 1), true
	}
	return []interface{}{}, true
}

// C06/effects: every selection operator evaluates its left operand / condition
// exactly once and hands back the value that was judged: the operand is a call
// of a recording host function that returns a different value on every call.
func VP_C06_effects() {
	ctx := context.Background()
	first, truthy := vpSmallCond("c1")
	calls := 0
	rcalls := 0
	data := map[string]interface{}{
		"next": func() (interface{}, error) {
			calls++
			if calls == 1 {
				return first, nil
			}
			return "later", nil
		},
		"rhs": func() (interface{}, error) {
			rcalls++
			return "R", nil
		},
	}
	texts := []string{"next() && rhs()", "next() || rhs()", "next() ?? rhs()", "next() ? rhs() : 'F'", "next() ? 'T' : rhs()", "!!next()", "(next() && 1, next())"}
	which := vpChoice("expr", len(texts))
	code, perr := ParseSourceCode([]byte(texts[which]))
	vpAssert("C06/effects/parses", perr == nil)
	if perr != nil {
		return
	}
	r := NewRunner()
	r.SetThis(data)
	v, err := vpExact(r, ctx, code.Expression)
	vpObserve("effects", which, calls, rcalls)
	vpAssert("C06/effects/no-error", err == nil)
	if which == 6 {
		vpAssert("C06/effects/each-written-call-runs-once", calls == 2 && vpSame(v, "later"))
		vpReach("C06/effects/done")
		return
	}
	vpAssert("C06/effects/left-operand-evaluated-once", calls == 1)
	leftSelected, rightWanted := false, false
	switch which {
	case 0:
		leftSelected, rightWanted = !truthy, truthy
	case 1:
		leftSelected, rightWanted = truthy, !truthy
	case 2:
		leftSelected, rightWanted = first != nil, first == nil
	case 3:
		rightWanted = truthy
	case 4:
		rightWanted = !truthy
	}
	switch {
	case which == 5:
		vpAssert("C06/effects/bangbang-of-the-judged-value", vpSame(v, truthy))
	case leftSelected:
		vpAssert("C06/effects/hands-back-the-judged-value", vpSameAny(v, first))
	case rightWanted:
		vpAssert("C06/effects/selected-right-operand", vpSame(v, "R") && rcalls == 1)
	default:
		vpAssert("C06/effects/unselected-branch-not-run", rcalls == 0)
	}
	if which >= 3 && which <= 4 && !rightWanted {
		vpAssert("C06/effects/unselected-branch-not-run", rcalls == 0)
	}
	vpReach("C06/effects/done")
}

func vpSameAny(got, want interface{}) bool {
	if w, ok := want.([]interface{}); ok {
		g, ok2 := got.([]interface{})
		return ok2 && len(g) == len(w)
	}
	return vpSame(got, want)
}

// C06/reeval: one parsed tree evaluated against two different data maps: the
// second evaluation follows the second map's truthiness (nothing about a
// condition may be remembered in the tree or the package).
func VP_C06_reeval() {
	ctx := context.Background()
	c1, _ := vpSmallCond("c1")
	c2, t2 := vpSmallCond("c2")
	texts := []string{"this.c ? 'T' : 'F'", "c ? 'T' : 'F'", "this.c && 'R'", "this.c || 'R'", "!!this.c", "typeof this.c === 'string' ? 'S' : 'N'", "(this.c ?? 'D') === 'D'", "this.m.c ? 'T' : 'F'"}
	which := vpChoice("expr", len(texts))
	code, perr := ParseSourceCode([]byte(texts[which]))
	vpAssert("C06/reeval/parses", perr == nil)
	if perr != nil {
		return
	}
	sameRunner := vpBool("sameRunner")
	r := NewRunner()
	r.SetThis(map[string]interface{}{"c": c1, "m": map[string]interface{}{"c": c1}})
	vpExact(r, ctx, code.Expression)
	if !sameRunner {
		r = NewRunner()
	}
	r.SetThis(map[string]interface{}{"c": c2, "m": map[string]interface{}{"c": c2}})
	v, err := vpExact(r, ctx, code.Expression)
	vpObserve("reeval", which, vpShowValue(v))
	vpAssert("C06/reeval/no-error", err == nil)
	_, isStr := c2.(string)
	switch which {
	case 0, 1, 7:
		want := "F"
		if t2 {
			want = "T"
		}
		vpAssert("C06/reeval/conditional-follows-current-data", vpSame(v, want))
	case 2:
		if t2 {
			vpAssert("C06/reeval/and-follows-current-data", vpSame(v, "R"))
		} else {
			vpAssert("C06/reeval/and-follows-current-data", vpSameAny(v, c2))
		}
	case 3:
		if !t2 {
			vpAssert("C06/reeval/or-follows-current-data", vpSame(v, "R"))
		} else {
			vpAssert("C06/reeval/or-follows-current-data", !vpSame(v, "R"))
		}
	case 4:
		vpAssert("C06/reeval/bangbang-follows-current-data", vpSame(v, t2))
	case 5:
		want := "N"
		if isStr {
			want = "S"
		}
		vpAssert("C06/reeval/typeof-follows-current-data", vpSame(v, want))
	case 6:
		vpAssert("C06/reeval/coalesce-follows-current-data", vpSame(v, c2 == nil))
	}
	vpReach("C06/reeval/done")
}

func init() {
	vpHarnesses["VP_C06_text"] = VP_C06_text
}

// C06/text: CONCRETE POOL of formulas through the real parser whose condition
// is itself a computed value (prefix operators on text: a computed zero / NaN
// is falsy like a literal one), or whose unselected branch would fail.
func VP_C06_text() {
	pool := []struct {
		f    string
		want interface{}
	}{
		{"!!+'0'", false}, {"!!-'0'", false}, {"!!+'abc'", false}, {"!!+'7'", true}, {"+'0' ? 'T' : 'F'", "F"}, {"+'abc' ? 'T' : 'F'", "F"}, {"-'0' || 'x'", "x"},
		{"(+'0' && 'x') === 0", true}, {"!!(0 * 5)", false}, {"!!(1 - 1.0)", false}, {"!!(0.1 + 0.2 - 0.3)", false}, {"(2 - 2) ? 'T' : 'F'", "F"}, {"!!toFloat('zz')", false},
		{"true ? 1 : (x = 2)", 1}, {"false ? (1 = 2) : 'ok'", "ok"}, {"1 ? 'sel' : (a.b = 1)", "sel"}, {"null ? nofn() : 'ok'", "ok"}, {"'' ? null!.k : 'ok'", "ok"}, {"0 ? left('a', -1) : 'ok'", "ok"},
		{"true ? (false ? (y = 1) : 2) : (x = 2)", 2}, {"!!'0'", true}, {"!!' '", true}, {"!![]", true}, {"!!null", false}, {"!!''", false},
	}
	p := pool[vpChoice("f", len(pool))]
	code, err := ParseSourceCode([]byte(p.f))
	vpAssert("C06/text/parses", err == nil)
	if err != nil {
		return
	}
	v, rerr := NewRunner().Resolve(context.Background(), code.Expression) // the public entry point
	vpObserve("text", p.f, vpShowValue(v), rerr != nil)
	vpAssert("C06/text/no-error", rerr == nil)
	switch w := p.want.(type) {
	case int:
		g, ok := v.(float64)
		vpAssert("C06/text/value", ok && g == float64(w))
	default:
		vpAssert("C06/text/value", vpSame(v, p.want))
	}
	vpReach("C06/text/done")
}
