package formula

import (
	"context"
	"fmt"
	"time"

	"github.com/ericlagergren/decimal"
)

func init() {
	vpHarnesses["VP_C03_positions"] = VP_C03_positions
	vpHarnesses["VP_C03_calls"] = VP_C03_calls
	vpHarnesses["VP_C03_ops"] = VP_C03_ops
}

var vpBuiltinNames = []string{
	"now", "toDay", "date", "addDate", "year", "month", "day", "hour", "minute", "second", "millSecond", "weekDay", "timeFormat", "useTimezone",
	"abs", "ceil", "exp", "floor", "ln", "log", "max", "min", "round", "roundBank", "roundCash", "sqrt", "finite",
	"startWith", "endWith", "contains", "find", "includes", "left", "right", "len", "lower", "upper", "lpad", "rpad", "mid", "replace", "trim", "regexp",
	"mapToArr", "join", "toString", "toInt", "toFloat",
	// names that are not builtins: a missing name, data values that are not functions, host functions of odd shapes
	"undefinedName", "notAFunction", "hostSlice", "hostOneResult", "hostThreeResults", "hostNonError", "hostIface", "hostMap", "hostVar", "true",
	"hostCtxVar", "hostCtx", "hostStruct", "hostPtr", "hostNested", "hostNilFunc", "hostIfaces", "hostIfaceMap",
	"hostArr", "hostArrPtr", "hostErrParam", "hostStringer", "hostUint", "hostBytes", "hostNilBig", "hostNilPtrResult", "hostIntArr",
}

const (
	akNull = iota
	akTypedNil
	akBool
	akNumber
	akString
	akStrings
	akMixed
	akMap
	akMaps
	akTime
	akFunc
	akUStruct   // struct with a slice field (not comparable)
	akArrSlices // Go array of slices (not comparable)
	akStruct    // comparable struct value
	akPtr       // pointer to struct
	akIntMap    // map with non-string keys
	akNilMap    // typed nil map
	akNullMap   // map holding a null entry
	akNilBig    // typed nil *decimal.Big
	akIfStruct  // struct whose interface field holds a slice (comparable type, uncomparable value)
	akInts      // Go []int
	akNestBox   // struct whose nested struct's interface field holds a map
	akKinds
)

type vpBoxed struct {
	ID  int
	Box interface{}
}

type vpOuterBox struct {
	ID    int
	Inner vpBoxed
}

type vpTagged struct {
	ID   int
	Tags []string
}

func vpArgValue(i int) interface{} {
	switch vpChoice("ak", akKinds) {
	case akNull:
		return nil
	case akTypedNil:
		return (*vpPerson)(nil)
	case akBool:
		return vpBool("ab")
	case akNumber:
		// concrete pool (the heavy big-number algorithms cannot run on symbolic digits);
		// symbolic positions are the subject of C03/positions
		pool := []struct {
			c int64
			s int
		}{{0, 0}, {1, 0}, {-1, 0}, {25, 1}, {3, 0}, {-7, 0}, {1000001, 0}}
		p := pool[vpChoice("an", len(pool))]
		return new(decimal.Big).SetMantScale(p.c, p.s)
	case akString:
		// concrete pool: empty, text, numeric text, an invalid regular expression, a zone name, multi-byte text
		return []string{"", "a", "12", "1.5", "(", "UTC", "\u00e9\u4e2d"}[vpChoice("as", 7)]
	case akStrings:
		return []interface{}{"a", "b"}
	case akMixed:
		return []interface{}{1, nil, "x"}
	case akMap:
		return map[string]interface{}{"k": 1}
	case akMaps:
		return []map[string]interface{}{{"k": 1}, {"j": 2}}
	case akTime:
		return time.Date(2024, 2, 29, 1, 2, 3, 0, time.UTC)
	case akFunc:
		return func() (int, error) { return 1, nil }
	case akUStruct:
		return vpTagged{ID: 1, Tags: []string{"t"}}
	case akArrSlices:
		return [2][]int{{1}, {2}}
	case akStruct:
		return vpPerson{Name: "n", Age: 1}
	case akPtr:
		return &vpPerson{Name: "p", Age: 2}
	case akIntMap:
		return map[int]string{1: "one"}
	case akNilMap:
		return map[string]interface{}(nil)
	case akNullMap:
		return map[string]interface{}{"k": nil, "j": 1}
	case akNilBig:
		return (*decimal.Big)(nil)
	case akIfStruct:
		return vpBoxed{ID: 1, Box: []int{1}}
	case akInts:
		return []int{7}
	case akNestBox:
		return vpOuterBox{ID: 2, Inner: vpBoxed{ID: 3, Box: map[string]interface{}{"k": 1}}}
	}
	return nil
}

func vpArgNames() []string { return []string{"p0", "p1", "p2", "p3"} }

// C03/calls: a call of every builtin name (and of odd data values) with every
// argument count 0..A over every argument kind, with and without spread,
// returns a value or an error and never panics.
func VP_C03_calls() {
	A := vpParam("A")
	name := vpBuiltinNames[vpChoice("name", len(vpBuiltinNames))]
	n := vpChoice("argc", A+1)
	data := map[string]interface{}{
		"notAFunction":     5,
		"hostSlice":        func(xs []string) (int, error) { return len(xs), nil },
		"hostOneResult":    func(x interface{}) int { return 1 },
		"hostThreeResults": func(x interface{}) (int, int, error) { return 1, 2, nil },
		"hostNonError":     func(x interface{}) (int, int) { return 1, 2 },
		"hostIface":        func(x interface{}) (bool, error) { return x == nil, nil },
		"hostMap":          func(m map[string]int) (int, error) { return len(m), nil },
		"hostVar":          func(a int, rest ...string) (int, error) { return a + len(rest), nil },
		"hostCtxVar":       func(c context.Context, parts ...string) (int, error) { return len(parts), nil },
		"hostCtx":          func(c context.Context, a string) (int, error) { return len(a), nil },
		"hostStruct":       func(p vpPerson) (int, error) { return p.Age, nil },
		"hostPtr":          func(p *vpPerson) (int, error) { return 1, nil },
		"hostNested":       func(xs [][]int, m map[string][]string) (int, error) { return len(xs) + len(m), nil },
		"hostNilFunc":      (func(x interface{}) (int, error))(nil),
		"hostIfaces":       func(xs []interface{}) (int, error) { return len(xs), nil },
		"hostIfaceMap":     func(m map[string]interface{}) (int, error) { return len(m), nil },
		"hostArr":          func(a [2]int) (int, error) { return a[0], nil },
		"hostArrPtr":       func(a *[2]int) (int, error) { return 2, nil },
		"hostErrParam":     func(e error) (int, error) { return 1, nil },
		"hostStringer":     func(x fmt.Stringer) (int, error) { return 1, nil },
		"hostUint":         func(x uint8) (int, error) { return int(x), nil },
		"hostBytes":        func(b []byte) (int, error) { return len(b), nil },
		"hostNilBig":       func() (*decimal.Big, error) { return nil, nil },
		"hostNilPtrResult": func() (*vpPerson, error) { return nil, nil },
		"hostIntArr":       func(a []int) (int, error) { return len(a), nil },
	}
	args := new(NodeList[Expression])
	names := vpArgNames()
	for i := 0; i < n; i++ {
		data[names[i]] = vpArgValue(i)
		args.Add(vpId(names[i]))
	}
	call := &CallExpression{Expression: vpId(name), Arguments: args}
	if vpBool("spread") {
		call.DotDotDotToken = &TokenNode{Token: SK_DotDotDot}
	}
	r := NewRunner()
	r.SetThis(data)
	v, err := r.Resolve(context.Background(), call)
	vpObserve("call", name, n, err != nil)
	vpAssert("C03/calls/value-xor-error", err == nil || v == nil)
	if err != nil {
		vpReach("C03/calls/error")
	} else {
		vpReach("C03/calls/value")
	}
}

var vpAllBinaryOps = []SyntaxKind{SK_LessThan, SK_GreaterThan, SK_LessThanEquals, SK_GreaterThanEquals, SK_EqualsEquals, SK_EqualsEqualsEquals, SK_ExclamationEquals,
	SK_ExclamationEqualsEquals, SK_Plus, SK_Minus, SK_Asterisk, SK_Slash, SK_Percent, SK_Ampersand, SK_Bar, SK_Caret, SK_AmpersandAmpersand, SK_BarBar, SK_QuestionQuestion, SK_Comma, SK_Equals}
var vpAllPrefixOps = []SyntaxKind{SK_Plus, SK_Minus, SK_Exclamation, SK_ExclamationExclamation, SK_Tilde}

// C03/ops: every operator, typeof, conditional, member access and array
// literal over every pair of operand kinds returns a value or an error.
func VP_C03_ops() {
	data := map[string]interface{}{"p0": vpArgValue(0), "p1": vpArgValue(1)}
	var e Expression
	shape := vpChoice("shape", 7)
	switch shape {
	case 0:
		e = vpBin(vpAllBinaryOps[vpChoice("op", len(vpAllBinaryOps))], vpId("p0"), vpId("p1"))
	case 1:
		e = &PrefixUnaryExpression{Operator: &TokenNode{Token: vpAllPrefixOps[vpChoice("op", len(vpAllPrefixOps))]}, Operand: vpId("p0")}
	case 2:
		e = &TypeOfExpression{Expression: vpId("p0")}
	case 3:
		e = &ConditionalExpression{Condition: vpId("p0"), QuestionTok: &TokenNode{Token: SK_Question}, WhenTrue: vpId("p1"), ColonTok: &TokenNode{Token: SK_Colon}, WhenFalse: vpId("p0")}
	case 4:
		e = &SelectorExpression{Expression: vpId("p0"), Name: vpId([]string{"k", "Name", "secret", "zz"}[vpChoice("key", 4)]), Assert: vpBool("assert")}
	case 5:
		e = &ArrayLiteralExpression{Elements: vpList(vpId("p0"), vpBin(SK_EqualsEquals, vpId("p1"), vpId("p1")))}
	case 6:
		e = vpBin(SK_Equals, vpId("$t"), vpBin(SK_Plus, vpId("p0"), vpId("p1")))
	}
	if shape == 4 && vpBool("struct") {
		data["p0"] = vpPerson{Name: "n", Age: 1, secret: 2}
	}
	r := NewRunner()
	r.SetThis(data)
	v, err := r.Resolve(context.Background(), e)
	vpObserve("op", shape, err != nil)
	vpAssert("C03/ops/value-xor-error", err == nil || v == nil)
	if err != nil {
		vpReach("C03/ops/error")
	} else {
		vpReach("C03/ops/value")
	}
}

// C03/positions: the position-taking string builtins with symbolic strings and
// symbolic integer positions from below zero to beyond the length.
func VP_C03_positions() {
	S := vpParam("S")
	s := vpSymString("s", S)
	pad := vpSymString("pad", 1)
	mk := func(name string) *decimal.Big {
		v := int64(vpChoice(name, 12)) - 4 // -4 .. 7, one path per value (the number-to-int bridge is floating point)
		return new(decimal.Big).SetMantScale(v, 0)
	}
	data := map[string]interface{}{"s": s, "pad": pad, "i": mk("i"), "j": mk("j")}
	var call *CallExpression
	switch vpChoice("fn", 5) {
	case 0:
		call = &CallExpression{Expression: vpId("left"), Arguments: vpList(vpId("s"), vpId("i"))}
	case 1:
		call = &CallExpression{Expression: vpId("right"), Arguments: vpList(vpId("s"), vpId("i"))}
	case 2:
		call = &CallExpression{Expression: vpId("mid"), Arguments: vpList(vpId("s"), vpId("i"), vpId("j"))}
	case 3:
		call = &CallExpression{Expression: vpId("lpad"), Arguments: vpList(vpId("s"), vpId("pad"), vpId("i"))}
	case 4:
		call = &CallExpression{Expression: vpId("rpad"), Arguments: vpList(vpId("s"), vpId("pad"), vpId("i"))}
	}
	r := NewRunner()
	r.SetThis(data)
	v, err := r.Resolve(context.Background(), call)
	vpAssert("C03/positions/value-xor-error", err == nil || v == nil)
	if err != nil {
		vpReach("C03/positions/error")
	} else {
		vpReach("C03/positions/value")
	}
}

func init() {
	vpHarnesses["VP_C03_extreme"] = VP_C03_extreme
}

// vpC03Extreme: a CONCRETE POOL of short formulas at the extremes: exponents
// far beyond any floating-point range, pad lengths near the largest integer,
// values that contain themselves (a local bound to `this`). Each must
// terminate with a value or an error. The last three are the listed known
// finding (the decimal library does not terminate in reasonable time on
// rounding / remainder of numbers with an exponent below about -10^8); they are
// kept at the end so that their indices stay stable.
var vpC03Extreme = []string{
	"exp(1e9)", "exp(-1e9)", "ln(1e-400)", "sqrt(1e400)", "log(1e6000)", "1e6000 % 7", "1e999999999 + 1", "1e999999999 % 7", "7 % 1e-99999", "toInt(1e999999)", "1e999999 & 1",
	"round(1e99999999)", "toString(1e999999999)", "ln(1e999999999)", "sqrt(1e999999999)", "1e999999999 * 1e999999999", "1e999999999 / 3", "1e999999999 < 1e-999999999", "toInt(1e-99999999)",
	"1e-99999999 & 1", "abs(-1e-999999999)", "max(1e999999999, 1e-999999999)", "1e-999999999 === 0", "-1e-999999999 < 0", "1e-400 * 1e-400 + 1",
	"lpad('a', 'bc', 9000000000000000000)", "rpad('a', 'b', 9000000000000000000)", "lpad('a', 'b', 1099511627776)", "rpad('abc', 'xy', 4611686018427387904)", "left('abc', 9000000000000000000)", "mid('abc', 1, 9000000000000000000)",
	"($a = this, toString($a))", "($a = this, '' + $a)", "($a = [this], len($a))", "($a = this, $b = [$a], join($b, ','))", "($a = this, lpad($a, 'x', 3))", "($a = this, $a == $a)", "($a = this, typeof $a.x)", "($a = this, $a.$a.$a === this)",
	"($a = [1], $b = [$a, $a], toString($b))", "($a = this, startWith($a, 'map'))", "($a = this, includes([$a], 1))",
	"floor(1e-99999999)", "round(1e-99999999)", "1e-99999999 % 7",
	// (appended later; the three entries above keep their indices 42..44, which the known-findings file names)
	"($e = wrap(this), toString($e))", "($e = wrap(this), '' + $e)", "($e = wrap([this]), join([$e], ','))", "toString(wrap(wrap(1)))",
}

// vpC03Chains: long left-nested chains of one logical operator in which only the last operand decides.
func vpC03Chains() []string {
	var out []string
	for _, op := range []string{" ?? ", " || ", " && "} {
		leaf := "u"
		last := "'none'"
		if op == " && " {
			leaf, last = "1", "0"
		}
		if op == " || " {
			leaf = "''"
		}
		s := leaf
		for i := 0; i < 48; i++ {
			s += op + leaf
		}
		out = append(out, s+op+last)
	}
	return out
}

type vpWrapped struct {
	Kind    string
	payload interface{}
}

// C03/extreme: every formula of the pool terminates with a value or an error.
func VP_C03_extreme() {
	var f string
	all := append(append([]string{}, vpC03Extreme...), vpC03Chains()...)
	if only := vpParam("ONLY"); only >= 0 {
		f = all[only] // (debugging aid: one formula)
	} else {
		f = all[vpChoice("f", len(all))]
	}
	code, err := ParseSourceCode([]byte(f))
	vpAssert("C03/extreme/parses", err == nil)
	if err != nil {
		return
	}
	r := NewRunner()
	r.SetThis(map[string]interface{}{"x": 1, "wrap": func(v interface{}) (interface{}, error) { return vpWrapped{Kind: "w", payload: v}, nil }})
	v, rerr := r.Resolve(context.Background(), code.Expression)
	vpObserve("extreme", f, rerr != nil)
	vpAssert("C03/extreme/value-xor-error", rerr == nil || v == nil)
	vpReach("C03/extreme/done")
}
