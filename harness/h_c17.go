package formula

import "context"

func init() {
	vpHarnesses["VP_C17_search"] = VP_C17_search
	vpHarnesses["VP_C17_slice"] = VP_C17_slice
	vpHarnesses["VP_C17_pad"] = VP_C17_pad
	vpHarnesses["VP_C17_transform"] = VP_C17_transform
	vpHarnesses["VP_C17_lists"] = VP_C17_lists
}

// vpBuiltin fetches a builtin by name through the runner (so a swapped
// registration is caught).
func vpBuiltin(name string) interface{} {
	v, err := vpExact(NewRunner(), context.Background(), vpId(name))
	if err != nil {
		return nil
	}
	return v
}

func vpSymString(name string, max int) string {
	n := vpChoice(name+"n", max+1)
	return string(vpBytes(name, n))
}

func vpHasPrefix(s, t string) bool {
	if len(t) > len(s) {
		return false
	}
	for i := 0; i < len(t); i++ {
		if s[i] != t[i] {
			return false
		}
	}
	return true
}

func vpHasSuffix(s, t string) bool {
	if len(t) > len(s) {
		return false
	}
	for i := 0; i < len(t); i++ {
		if s[len(s)-len(t)+i] != t[i] {
			return false
		}
	}
	return true
}

func vpFirstIndex(s, t string) int {
	for i := 0; i+len(t) <= len(s); i++ {
		if vpHasPrefix(s[i:], t) {
			return i
		}
	}
	return -1
}

// vpCall2 runs f and converts a panic into ok=false (panics are C03's subject).
func vpGuard(f func()) (ok bool) {
	defer func() {
		if r := recover(); r != nil {
			if _, isAssume := r.(vpAssumeFailure); isAssume {
				panic(r)
			}
			ok = false
		}
	}()
	f()
	return true
}

// C17/search: startWith, endWith, contains, find.
func VP_C17_search() {
	S := vpParam("S")
	s, t := vpSymString("s", S), vpSymString("t", S)
	sw, ok1 := vpBuiltin("startWith").(func(string, string) (bool, error))
	ew, ok2 := vpBuiltin("endWith").(func(string, string) (bool, error))
	ct, ok3 := vpBuiltin("contains").(func(string, string) (bool, error))
	fd, ok4 := vpBuiltin("find").(func(string, string) (int, error))
	vpAssert("C17/search/builtins-present", ok1 && ok2 && ok3 && ok4)
	if !(ok1 && ok2 && ok3 && ok4) {
		return
	}
	idx := vpFirstIndex(s, t)
	r1, e1 := sw(s, t)
	vpAssert("C17/search/startWith-is-prefix", e1 == nil && r1 == vpHasPrefix(s, t))
	r2, e2 := ew(s, t)
	vpAssert("C17/search/endWith-is-suffix", e2 == nil && r2 == vpHasSuffix(s, t))
	r3, e3 := ct(s, t)
	vpAssert("C17/search/contains-is-substring", e3 == nil && r3 == (idx >= 0))
	r4, e4 := fd(s, t)
	vpAssert("C17/search/find-is-first-index", e4 == nil && r4 == idx)
	vpAssert("C17/search/find-minus-one-iff-not-contains", (r4 == -1) == !r3)
	vpReach("C17/search/done")
}

// C17/slice: left, right, mid and the laws relating them.
func VP_C17_slice() {
	S := vpParam("S")
	s := vpSymString("s", S)
	left, ok1 := vpBuiltin("left").(func(string, int) (string, error))
	right, ok2 := vpBuiltin("right").(func(string, int) (string, error))
	mid, ok3 := vpBuiltin("mid").(func(string, int, int) (string, error))
	sw, ok4 := vpBuiltin("startWith").(func(string, string) (bool, error))
	ew, ok5 := vpBuiltin("endWith").(func(string, string) (bool, error))
	vpAssert("C17/slice/builtins-present", ok1 && ok2 && ok3 && ok4 && ok5)
	if !(ok1 && ok2 && ok3 && ok4 && ok5) {
		return
	}
	n := vpInt("n")
	switch vpChoice("law", 3) {
	case 0:
		vpAssume(n >= 0 && n <= len(s))
		var l, r string
		if vpGuard(func() { l, _ = left(s, n); r, _ = right(s, len(s)-n) }) {
			vpAssert("C17/slice/left+right==s", l+r == s)
			vpAssert("C17/slice/left-length", len(l) == n)
		}
	case 1:
		vpAssume(n >= 0 && n <= len(s)+2)
		var l, r string
		var a, b bool
		if vpGuard(func() { l, _ = left(s, n); r, _ = right(s, n); a, _ = sw(s, l); b, _ = ew(s, r) }) {
			vpAssert("C17/slice/startWith-left", a)
			vpAssert("C17/slice/endWith-right", b)
			if n <= len(s) {
				vpAssert("C17/slice/left-is-prefix-of-length-n", l == s[:n])
				vpAssert("C17/slice/right-is-suffix-of-length-n", r == s[len(s)-n:])
			} else {
				vpAssert("C17/slice/left-clamped", l == s)
				vpAssert("C17/slice/right-clamped", r == s)
			}
		}
	case 2:
		j := vpInt("j")
		vpAssume(n >= -2 && n <= len(s)+2 && j >= n && j <= len(s)+2)
		var m string
		if vpGuard(func() { m, _ = mid(s, n, j) }) {
			lo, hi := n, j
			if lo < 0 {
				lo = 0
			}
			if lo > len(s) {
				lo = len(s)
			}
			if hi < 0 {
				hi = 0
			}
			if hi > len(s) {
				hi = len(s)
			}
			vpAssert("C17/slice/mid-is-clamped-slice", m == s[lo:hi])
		}
	}
	vpReach("C17/slice/done")
}

// C17/pad: lpad / rpad with a one-character pad.
func VP_C17_pad() {
	S := vpParam("S")
	s := vpSymString("s", S)
	pad := string([]byte{vpByte("pad")})
	lpad, ok1 := vpBuiltin("lpad").(func(string, string, int) (string, error))
	rpad, ok2 := vpBuiltin("rpad").(func(string, string, int) (string, error))
	vpAssert("C17/pad/builtins-present", ok1 && ok2)
	if !(ok1 && ok2) {
		return
	}
	n := vpInt("n")
	vpAssume(n >= 0 && n <= S+3)
	var l, r string
	if !vpGuard(func() { l, _ = lpad(s, pad, n); r, _ = rpad(s, pad, n) }) {
		return
	}
	vpAssert("C17/pad/lpad-length", len(l) == n)
	vpAssert("C17/pad/rpad-length", len(r) == n)
	if len(s) <= n {
		vpAssert("C17/pad/lpad-ends-with-s", vpHasSuffix(l, s))
		vpAssert("C17/pad/rpad-starts-with-s", vpHasPrefix(r, s))
		fill := true
		for i := 0; i < n-len(s) && i < len(l) && len(s)+i < len(r); i++ {
			if l[i] != pad[0] || r[len(s)+i] != pad[0] {
				fill = false
			}
		}
		vpAssert("C17/pad/filled-with-pad-character", fill)
	} else {
		vpAssert("C17/pad/lpad-truncates-to-first-n", l == s[:n])
		vpAssert("C17/pad/rpad-truncates-to-first-n", r == s[:n])
	}
	vpReach("C17/pad/done")
}

func vpIsUnicodeSpace(ch rune) bool {
	switch {
	case ch == ' ' || ch == '\t' || ch == '\n' || ch == '\v' || ch == '\f' || ch == '\r':
		return true
	case ch == 0x85 || ch == 0xA0 || ch == 0x1680 || (ch >= 0x2000 && ch <= 0x200A) || ch == 0x2028 || ch == 0x2029 || ch == 0x202F || ch == 0x205F || ch == 0x3000:
		return true
	}
	return false
}

func vpIsSpaceASCII(c byte) bool {
	return c == ' ' || c == '\t' || c == '\n' || c == '\v' || c == '\f' || c == '\r'
}

// C17/transform: replace, trim, lower, upper (ASCII texts).
func VP_C17_transform() {
	S := vpParam("S")
	s := vpSymString("s", S)
	fn := vpChoice("fn", 5)
	if fn != 4 {
		for i := 0; i < len(s); i++ {
			vpAssume(s[i] < 0x80)
		}
	}
	switch fn {
	case 0:
		replace, ok := vpBuiltin("replace").(func(string, string, string) (string, error))
		vpAssert("C17/transform/replace-present", ok)
		if !ok {
			return
		}
		old := string(vpBytes("old", 1+vpChoice("oldn", 2)))
		nw := string(vpBytes("new", vpChoice("newn", 2)))
		// reference: replace every (non-overlapping, left to right) occurrence
		var want []byte
		for i := 0; i < len(s); {
			if vpHasPrefix(s[i:], old) {
				want = append(want, nw...)
				i += len(old)
			} else {
				want = append(want, s[i])
				i++
			}
		}
		got, err := replace(s, old, nw)
		vpAssert("C17/transform/replace-every-occurrence", err == nil && got == string(want))
	case 1:
		trim, ok := vpBuiltin("trim").(func(string) (string, error))
		vpAssert("C17/transform/trim-present", ok)
		if !ok {
			return
		}
		lo, hi := 0, len(s)
		for lo < hi && vpIsSpaceASCII(s[lo]) {
			lo++
		}
		for hi > lo && vpIsSpaceASCII(s[hi-1]) {
			hi--
		}
		got, err := trim(s)
		vpAssert("C17/transform/trim-strips-surrounding-whitespace-only", err == nil && got == s[lo:hi])
	case 4: // trim on arbitrary bytes: Unicode white space (as the statement's "whitespace") at either end
		trim, ok := vpBuiltin("trim").(func(string) (string, error))
		if !ok {
			return
		}
		b := []byte(s)
		lo, hi := 0, len(b)
		for lo < hi {
			ch, size := vpDecode(b[lo:hi])
			if !vpIsUnicodeSpace(ch) {
				break
			}
			lo += size
		}
		for hi > lo {
			// last rune: try the 1-, 2- and 3-byte suffixes
			cut := 0
			for _, w := range []int{1, 2, 3} {
				if hi-w >= lo {
					ch, size := vpDecode(b[hi-w : hi])
					if size == w && vpIsUnicodeSpace(ch) && (w == 1 || ch != 0xFFFD) {
						cut = w
					}
				}
			}
			if cut == 0 {
				break
			}
			hi -= cut
		}
		got, err := trim(s)
		vpAssert("C17/transform/trim-strips-unicode-whitespace", err == nil && got == string(b[lo:hi]))
	case 2, 3:
		name := "lower"
		if vpChoice("up", 2) == 1 {
			name = "upper"
		}
		f, ok := vpBuiltin(name).(func(string) (string, error))
		vpAssert("C17/transform/case-present", ok)
		if !ok {
			return
		}
		want := make([]byte, len(s))
		for i := 0; i < len(s); i++ {
			c := s[i]
			if name == "lower" && c >= 'A' && c <= 'Z' {
				c += 'a' - 'A'
			}
			if name == "upper" && c >= 'a' && c <= 'z' {
				c -= 'a' - 'A'
			}
			want[i] = c
		}
		got, err := f(s)
		vpAssert("C17/transform/case-mapping", err == nil && got == string(want))
	}
	vpReach("C17/transform/done")
}

// C17/lists: join and includes.
func VP_C17_lists() {
	S := vpParam("S")
	n := vpChoice("n", 4)
	list := make([]string, n)
	for i := range list {
		list[i] = vpSymString("e", S)
	}
	sep := vpSymString("sep", 1)
	item := vpSymString("item", S)
	join, ok1 := vpBuiltin("join").(func([]string, string) (string, error))
	includes, ok2 := vpBuiltin("includes").(func([]string, string) (bool, error))
	vpAssert("C17/lists/builtins-present", ok1 && ok2)
	if !(ok1 && ok2) {
		return
	}
	want := ""
	member := false
	for i, e := range list {
		if i > 0 {
			want += sep
		}
		want += e
		if e == item {
			member = true
		}
	}
	got, err := join(list, sep)
	vpAssert("C17/lists/join-is-concatenation", err == nil && got == want)
	inc, err2 := includes(list, item)
	vpAssert("C17/lists/includes-is-membership", err2 == nil && inc == member)
	vpReach("C17/lists/done")
}
