package formula

func init() {
	vpHarnesses["VP_C02_bytes"] = VP_C02_bytes
}

// C02/bytes: integration of the real scanner and parser on every text of L
// symbolic bytes against the reference tokenizer + reference parser (no stub).
func VP_C02_bytes() {
	L := vpParam("L")
	text := vpBytes("t", L)
	if vpParam("ALPHA") == 1 {
		// literal-adjacent alphabet: longer texts at the same cost
		for _, c := range text {
			vpAssume(c == '-' || c == '0' || c == 'x' || c == '1' || c == ' ' || c == '.')
		}
	}
	toks, cut, invalid := vpRefTokenize2(text)
	if invalid {
		// a numeric literal immediately followed by an identifier character is a syntax error
		_, err := ParseSourceCode(text)
		vpAssert("C02/bytes/literal-followed-by-identifier-is-rejected", err != nil)
		vpReach("C02/bytes/invalid")
		return
	}
	if cut {
		vpReach("C02/bytes/cut")
		return // token extents not fixed by the statement (malformed literals, escapes)
	}
	t := &vpTokens{}
	for _, k := range toks {
		if k.kind == SK_EndOfFile {
			break
		}
		t.kinds = append(t.kinds, k.kind)
		t.lb = append(t.lb, k.lb)
	}
	if vpDontCare(t) {
		return
	}
	want, acc := vpRefParse(t)
	for _, k := range t.kinds {
		if k == SK_Unknown {
			acc = false // an invalid character is a syntax error
		}
	}
	src, err := ParseSourceCode(text)
	vpObserve("verdict", acc, err == nil)
	if acc {
		vpReach("C02/bytes/derivable")
		vpAssert("C02/bytes/derivable-is-accepted", err == nil)
		if err == nil {
			vpAssert("C02/bytes/tree-follows-grammar", src != nil && vpSameTree(src.Expression, want))
		}
	} else {
		vpReach("C02/bytes/underivable")
		vpAssert("C02/bytes/underivable-is-rejected", err != nil)
	}
}
