package formula

func init() {
	vpHarnesses["VP_C02_bytes"] = VP_C02_bytes
	vpHarnesses["VP_C02_pool"] = VP_C02_pool
}

// C02/bytes: integration of the real scanner and parser on every text of L
// symbolic bytes against the reference tokenizer + reference parser (no stub).
func VP_C02_bytes() {
	L := vpParam("L")
	text := vpBytes("t", L)
	if vpParam("ALPHA") == 1 {
		// literal-adjacent alphabet: longer texts at the same cost
		for _, c := range text {
			vpAssume(c == '-' || c == '0' || c == 'x' || c == '1' || c == ' ' || c == '.')
		}
	}
	vpC02CheckText(text)
}

// vpC02Texts: a CONCRETE POOL of formulas longer than the symbolic byte bound:
// prefix / typeof operands that start with a parenthesised expression followed
// by member access or a call, commas inside the arms of a conditional and
// inside lists, keywords in operand and member-name position, nested
// conditionals and assignments.
var vpC02Texts = []string{
	"typeof (a).b", "typeof (a)!.b", "typeof (f)(x)", "typeof (a + b).c == 'x'", "-(a).b", "!(f)(x).y", "~(a)!.b(c)", "typeof typeof (a).b",
	"a ? b, c : d", "f(a ? b, c : d)", "[a ? b, c : d]", "x ? y ? 1, 2 : 3 : 4", "a ? b : c, d", "a ? (b, c) : d", "f(a ? b : c, d)", "a ? b = c : d = e", "a ? b : c ? d : e, f",
	"f(ctx)", "f(a, ctx.user)", "[ctx]", "[1, ctx.user, 2]", "[this, null, true, false]", "f(typeof a, !b, -c, +d, ~e, !!g)", "this.null", "ctx.this", "(this).false", "[this.typeof]", "a.true.false",
	"a = b = c", "$a = $b = 1, $a", "a, b = c, d", "(a, b) = c", "a = b ? c : d", "a ? b : c = d", "a ?? b || c && d | e ^ f & g == h < i + j * k", "a * b + c < d == e & f ^ g | h && i || j ?? k",
	"-!a", "!-a", "~-a.b", "!!-~a", "x * -!y", "f(+~a)", "- - a", "-typeof !~a", "a.b(c).d(e)(f)", "a(b)(c).d!.e", "[[a], [b, [c]]]", "((a))", "(a)(b)", "a.b.c!.d.e",
	"f(a, b...)", "f(...a)", "f(a..., b)", "a ? : b", "a ? b :", "? a : b", "a b", "a +", "+ ", "(", ")", "[", "]", "f(", "f(a,", "a..b", "a.", ".a", "a!.", "1 2", "a ? b ? c : d", "a : b",
	// a member name on the line after its dot (the parser looks ahead there), followed by stray / invalid bytes inside a list
	"f(a.\nb #)", "[a.\nb #]", "f(a!.\nb @)", "f(a.\nb)", "[a.\nb]", "f(a\n.b #)", "f(a.\n#)", "[a.\n'x' #]", "f(a #)", "[# a]", "f(a.\nb #, c)", "[a.\nb # c]", "f(a.\nb \\)", "f(a.\n b ` )", "a.\nb #",
	// a call's '(' on the line after its target, after an earlier call and member access in the same chain
	"f(x).y\n(1, 2)", "a.b(c).d.e\n(g)", "f(x)!.y\n(1)", "f(x)\n(y)", "a.b\n(c)", "a\n(c)", "f(x).y(1)\n(2)", "[f(x).y\n(1)]", "g(f(x).y\n(1))", "f(x).y\n.z", "f(x).y\n!.z",
}

// vpC02LongTexts: longer generated formulas (a few hundred tokens): many sibling prefix
// operators, parentheses, calls and conditionals; deep nesting; long operator chains.
func vpC02LongTexts() [][]byte {
	return [][]byte{
		vpRepeat("[", "-1, ", "-1]", 300), vpRepeat("a", " + !b", "", 300), vpRepeat("", "(1) + ", "1", 300), vpRepeat("", "f(1) + ", "1", 300),
		vpRepeat("", "(", "1"+string(vpRepeat("", ")", "", 200)), 200), vpRepeat("", "-", "1", 300), vpRepeat("", "typeof ", "a", 300), vpRepeat("", "a ? 1 : ", "2", 300),
		vpRepeat("a", ".b", "", 300), vpRepeat("a", "(1)", "", 300), vpRepeat("1", " * 2 + 3", "", 200), vpRepeat("[", "[", "1"+string(vpRepeat("", "]", "", 201)), 200),
		vpRepeat("", "(", "1", 200), vpRepeat("1", " + ", "", 200), vpRepeat("f(", "a..., ", "b)", 2),
	}
}

// C02/pool: the real scanner + parser against the reference tokenizer + parser on the concrete pool.
func VP_C02_pool() {
	long := vpC02LongTexts()
	k := vpChoice("text", len(vpC02Texts)+len(long))
	if k < len(vpC02Texts) {
		vpC02CheckText([]byte(vpC02Texts[k]))
	} else {
		vpC02CheckText(long[k-len(vpC02Texts)])
	}
}

func vpC02CheckText(text []byte) {
	toks, cut, invalid := vpRefTokenize2(text)
	if invalid {
		// a numeric literal immediately followed by an identifier character is a syntax error
		_, err := ParseSourceCode(text)
		vpAssert("C02/bytes/literal-followed-by-identifier-is-rejected", err != nil)
		vpReach("C02/bytes/invalid")
		return
	}
	if cut {
		vpReach("C02/bytes/cut")
		return // token extents not fixed by the statement (malformed literals, escapes)
	}
	t := &vpTokens{}
	for _, k := range toks {
		if k.kind == SK_EndOfFile {
			break
		}
		t.kinds = append(t.kinds, k.kind)
		t.lb = append(t.lb, k.lb)
	}
	if vpDontCare(t) {
		return
	}
	want, acc := vpRefParse(t)
	for _, k := range t.kinds {
		if k == SK_Unknown {
			acc = false // an invalid character is a syntax error
		}
	}
	src, err := ParseSourceCode(text)
	vpObserve("verdict", acc, err == nil)
	if acc {
		vpReach("C02/bytes/derivable")
		vpAssert("C02/bytes/derivable-is-accepted", err == nil)
		if err == nil {
			vpAssert("C02/bytes/tree-follows-grammar", src != nil && vpSameTree(src.Expression, want))
		}
	} else {
		vpReach("C02/bytes/underivable")
		vpAssert("C02/bytes/underivable-is-rejected", err != nil)
	}
}
