package formula

import (
	"context"
	"strconv"
	"strings"

	"github.com/ericlagergren/decimal"
)

func init() {
	vpHarnesses["VP_C08_pool"] = VP_C08_pool
	vpHarnesses["VP_C08_parse"] = VP_C08_parse
	vpHarnesses["VP_C08_eval"] = VP_C08_eval
}

// vpUnrelatedWork parses, evaluates and analyses unrelated formulas (with
// assignments, errors, builtins, and texts that are rejected part-way) and
// returns a digest of everything it observed: the digest itself must not depend
// on what ran before ("regardless of which other formulas were parsed or
// evaluated before or in between").
func vpUnrelatedWork() string {
	digest := ""
	for _, f := range []string{"$z = 1 + 2, [$z, abs(-1)]", "1 +", "q.r.s == null ? 'a' : left('xyz', 1)", "[roundBank(3.5), ceil(1.2), 7 / 2, 7 % 2, round(2.5)]",
		"regexp('abc', 'b+') ? regexp('x', '(') : 0", "toString(1.50) + lpad('a', '0', 3) + join(['a', 'b'], ',')",
		"[toInt(7.25), -(2.5), abs(-9.75), round(0.125), ceil(7.25)]",
		"\u0662", "1 + \u0301x", "a\u0661 + 1", "$e\u0301 = 2", "(1 2", "ok1 + 1", "1 + ) 2", "[ok2]", "f(a, (b c", "ok3", "[1 2", "1 2", "'open", "ok4 . k"} {
		code, err := ParseSourceCode([]byte(f))
		if err != nil {
			digest += "E:" + err.Error() + ";"
			continue
		}
		r := NewRunner()
		r.SetThis(map[string]interface{}{"q": map[string]interface{}{}})
		v, rerr := r.Resolve(context.Background(), code.Expression)
		fs, ferr := ResolveReferenceFields(code)
		digest += "V:" + vpShowValue(v) + "/" + vpErrText2(rerr) + "/" + strings.Join(fs, ",") + "/" + vpErrText2(ferr) + ";"
	}
	return digest
}

func vpShowValue(v interface{}) string {
	switch t := v.(type) {
	case nil:
		return "null"
	case bool:
		if t {
			return "true"
		}
		return "false"
	case string:
		return "s:" + t
	case float64:
		return "f:" + strconv.FormatFloat(t, 'g', -1, 64)
	case *decimal.Big:
		return "n:" + t.String()
	case []interface{}:
		s := "["
		for _, e := range t {
			s += vpShowValue(e) + ","
		}
		return s + "]"
	}
	return "?"
}

func vpErrText2(err error) string {
	if err == nil {
		return ""
	}
	return err.Error()
}

// C08/parse: parsing the same text twice (with unrelated work in between) gives
// structurally identical trees / the same error, and writes no package-level state.
func VP_C08_parse() {
	L := vpParam("L")
	text := vpBytes("t", L)
	// two orders: either the unrelated work runs first in the fresh state (its digest must
	// not change after the parse), or the parse runs first in the fresh state (its result
	// must not change after the unrelated work)
	workFirst := vpBool("workFirst")
	base := ""
	if workFirst {
		base = vpUnrelatedWork()
	}
	vpFreezeGlobals()
	a, errA := ParseSourceCode(text)
	mid := vpUnrelatedWork()
	b, errB := ParseSourceCode(append([]byte(nil), text...))
	if workFirst {
		vpAssert("C08/parse/unrelated-work-unaffected", base == mid)
	}
	vpAssert("C08/parse/same-verdict", (errA == nil) == (errB == nil))
	if errA != nil && errB != nil {
		vpAssert("C08/parse/same-error", vpErrText2(errA) == vpErrText2(errB))
		vpReach("C08/parse/rejected")
	}
	if errA == nil && errB == nil {
		vpAssert("C08/parse/identical-trees", a != nil && b != nil && vpSameImplTree(a.Expression, b.Expression))
		vpReach("C08/parse/accepted")
	}
	vpAssert("C08/parse/no-hidden-state-written", vpWrites() == 0)
}

func vpSameResult(a, b interface{}) bool { return vpDeepEq(a, b) }

// C08/eval: evaluating a tree with equal data in a fresh runner gives the same
// value or error every time; evaluation and field analysis leave the tree and
// the package state unchanged.
func VP_C08_eval() {
	N, D := vpParam("N"), vpParam("D")
	budget := N
	prog := vpGenProg(&budget, D)
	tree := prog.ast()
	twin := prog.ast() // an identical, separately built tree: the "dump before"
	src := &SourceCode{Expression: tree}
	mkData := func() map[string]interface{} {
		return map[string]interface{}{"x": 2, "y": nil, "f": func(a, b interface{}) (int, error) { return 5, nil }}
	}
	vpFreezeGlobals()
	vpFreeze("tree", tree)
	r1 := NewRunner()
	r1.SetThis(mkData())
	v1, e1 := r1.Resolve(context.Background(), tree)
	f1, fe1 := ResolveReferenceFields(src)
	vpUnrelatedWork()
	r2 := NewRunner()
	r2.SetThis(mkData())
	v2, e2 := r2.Resolve(context.Background(), tree)
	f2, fe2 := ResolveReferenceFields(src)
	vpAssert("C08/eval/same-verdict", (e1 == nil) == (e2 == nil) && (fe1 == nil) == (fe2 == nil))
	if e1 == nil && e2 == nil {
		vpAssert("C08/eval/same-value", vpSameResult(v1, v2))
	} else if e1 != nil && e2 != nil {
		vpAssert("C08/eval/same-error", e1.Error() == e2.Error())
	}
	if fe1 == nil && fe2 == nil {
		vpAssert("C08/eval/same-fields", vpSameSetModulo(f1, f2, nil) && len(f1) == len(f2))
	}
	vpAssert("C08/eval/tree-unchanged", vpSameImplTree(tree, twin))
	vpAssert("C08/eval/no-hidden-state-written", vpWrites() == 0)
	vpReach("C08/eval/done")
}

// formulas whose result depends on library state that a careless change could
// share between evaluations: compiled regular expressions (valid and invalid),
// rounding at the 34-digit working precision (a tie exposed by a subtraction),
// precision-sensitive division, number formatting
var vpC08Pool = []string{
	"regexp(s, '[')", "regexp('xyz', '(') ? 1 : 2", "regexp(s, 'b+')", "[regexp('a', 'a'), regexp('b', 'c')]",
	"3000000000000000000000000000000001 / 2 - 1500000000000000000000000000000000",
	"1000000000000000000000000000000000 + 0.5 == 1000000000000000000000000000000000",
	"1 / 3 * 3 == 1", "round(2.5) + roundBank(2.5) + round(-0.5)", "7.25 + 1", "[2.5, 9.75 * 2, 0.125 + 0.125]", "toString(1 / 3)", "2.5 % 1 + ceil(1.2) + floor(-1.2)",
	"($a = this, $b = this, '' + this)", "($a = this, $b = this, $c = [this], toString([1, this]))",
	"(q.x).y", "((q)).x", "max((q.x).y, 1)", "(q.x + 1).k", "toString(q) + toString([q, q])",
}

// C08/pool: state-sensitive formulas evaluated three times in fresh runners,
// with the unrelated work (which itself rounds, divides and compiles patterns)
// in between, give the same value or the same error every time.
func VP_C08_pool() {
	workFirst := vpBool("workFirst")
	base := ""
	if workFirst {
		base = vpUnrelatedWork() // in the fresh process state
	}
	text := vpC08Pool[vpChoice("f", len(vpC08Pool))]
	s := vpSymString("s", 1)
	code, err := ParseSourceCode([]byte(text))
	vpAssert("C08/pool/parses", err == nil)
	if err != nil {
		return
	}
	vpFreezeGlobals()
	eval := func() (interface{}, string) {
		r := NewRunner()
		r.SetThis(map[string]interface{}{"s": s, "q": map[string]interface{}{"x": map[string]interface{}{"y": 4, "z": 5}, "w": 6}})
		v, e := r.Resolve(context.Background(), code.Expression)
		ResolveReferenceFields(code)
		ResolveReferenceFieldsNotLocal(code)
		return v, vpErrText2(e)
	}
	twin, terr := ParseSourceCode([]byte(text))
	v1, e1 := eval()
	w1 := vpUnrelatedWork()
	// the second evaluation iterates maps in the opposite order (Go leaves the order unspecified)
	vpReverseMapOrder(true)
	v2, e2 := eval()
	vpReverseMapOrder(false)
	w2 := vpUnrelatedWork()
	vpAssert("C08/pool/unrelated-work-same-every-time", w1 == w2 && (w1 == base || !workFirst))
	v3, e3 := eval()
	vpObserve("pool", text, e1 != "", e2 != "", e3 != "")
	vpAssert("C08/pool/same-verdict-every-time", (e1 == "") == (e2 == "") && (e2 == "") == (e3 == ""))
	vpAssert("C08/pool/same-error-every-time", e1 == e2 && e2 == e3)
	if e1 == "" && e2 == "" && e3 == "" {
		vpAssert("C08/pool/same-value-every-time", vpDeepEq(v1, v2) && vpDeepEq(v2, v3))
	}
	// evaluation and field analysis leave the tree unchanged: it still equals a fresh parse of the same text
	vpAssert("C08/pool/tree-unchanged", terr == nil && twin != nil && vpSameImplTree(code.Expression, twin.Expression) && vpSameImplTree(twin.Expression, code.Expression))
	vpReach("C08/pool/done")
}
