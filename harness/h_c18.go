package formula

import (
	"context"

	"github.com/ericlagergren/decimal"
)

func init() {
	vpHarnesses["VP_C18_rounding"] = VP_C18_rounding
	vpHarnesses["VP_C18_minmax"] = VP_C18_minmax
	vpHarnesses["VP_C18_conv"] = VP_C18_conv
	vpHarnesses["VP_C18_bits"] = VP_C18_bits
	vpHarnesses["VP_C18_bigints"] = VP_C18_bigints
	vpHarnesses["VP_C18_tostring"] = VP_C18_tostring
}

// vpBigEq: x is finite and equals (-1)^neg * coef * 10^exp exactly (zero: any sign).
func vpBigEq(x *decimal.Big, neg bool, coef uint64, exp int) bool {
	if x == nil || !x.IsFinite() {
		return false
	}
	m, ok := x.Mantissa()
	if !ok {
		return false
	}
	if coef == 0 {
		return m == 0
	}
	if x.Signbit() != neg {
		return false
	}
	d := -x.Scale() - exp
	switch {
	case d == 0:
		return m == coef
	case d > 0 && d <= 18:
		p := uint64(1)
		for k := 0; k < d; k++ {
			p *= 10
		}
		return m <= coef/p && m*p == coef
	case d < 0 && d >= -18:
		p := uint64(1)
		for k := 0; k < -d; k++ {
			p *= 10
		}
		return coef <= m/p && coef*p == m
	}
	return false
}

func vpNumParamExp(name string, cb int, lo, hi int) vpNum {
	n := vpNum{}
	n.coef = vpCoef(name+"c", cb)
	n.exp = lo + vpChoice(name+"e", hi-lo+1)
	n.neg = vpBool(name + "n")
	return n
}

// C18/rounding: abs, ceil, floor, round, roundBank from their definitions.
func VP_C18_rounding() {
	CB, E := vpParam("CB"), vpParam("E")
	x := vpNumParamExp("x", CB, -E, 1)
	var q, rem, p uint64 // |x| = q + rem/p (p = 10^-exp) when exp < 0
	frac := x.exp < 0
	if frac {
		p = uint64(vpPow10[-x.exp])
		q, rem = x.coef/p, x.coef%p
	}
	name := []string{"abs", "ceil", "floor", "round", "roundBank"}[vpChoice("fn", 5)]
	f, ok := vpBuiltin(name).(func(*decimal.Big) (*decimal.Big, error))
	vpAssert("C18/rounding/builtin-present", ok)
	if !ok {
		return
	}
	arg := x.big()
	if vpParam("H") == 1 {
		// history: another rounding builtin ran earlier in this process
		if pre := vpChoice("pre", 3); pre > 0 {
			g, _ := vpBuiltin([]string{"", "round", "roundBank"}[pre]).(func(*decimal.Big) (*decimal.Big, error))
			if g != nil {
				g(decimal.New(25, 1))
			}
		}
	}
	r, err := f(arg)
	vpAssert("C18/rounding/no-error", err == nil && r != nil)
	if err != nil || r == nil {
		return
	}
	vpAssert("C18/rounding/argument-not-mutated", vpBigEq(arg, x.neg, x.coef, x.exp) && (arg.Signbit() == x.neg))
	switch name {
	case "abs":
		vpAssert("C18/abs/is-magnitude", vpBigEq(r, false, x.coef, x.exp) && (!r.Signbit() || x.coef == 0))
	case "ceil", "floor":
		if !frac {
			vpAssert("C18/"+name+"/integer-unchanged", vpBigEq(r, x.neg, x.coef, x.exp))
			break
		}
		// towards -inf for floor, +inf for ceil
		mag := q
		up := (name == "floor") == x.neg // magnitude grows when rounding away from zero
		if up && rem > 0 {
			mag = q + 1
		}
		vpAssert("C18/"+name+"/definition", vpBigEq(r, x.neg, mag, 0))
	case "round", "roundBank":
		if !frac {
			vpAssert("C18/"+name+"/integer-unchanged", vpBigEq(r, x.neg, x.coef, x.exp))
			break
		}
		lower, upper := vpBigEq(r, x.neg, q, 0), vpBigEq(r, x.neg, q+1, 0)
		switch {
		case 2*rem < p:
			vpAssert("C18/"+name+"/nearest", lower)
		case 2*rem > p:
			vpAssert("C18/"+name+"/nearest", upper)
		default: // tie
			if name == "round" {
				vpAssert("C18/round/within-half", lower || upper)
			} else if q%2 == 0 {
				vpAssert("C18/roundBank/ties-to-even", lower)
			} else {
				vpAssert("C18/roundBank/ties-to-even", upper)
			}
		}
	}
	vpReach("C18/rounding/done")
}

// C18/minmax: max/min return an argument that bounds all the others.
func VP_C18_minmax() {
	N, CB := vpParam("N"), vpParam("CB")
	n := 1 + vpChoice("n", N)
	nums := make([]vpNum, n)
	args := make([]*decimal.Big, n)
	for i := range nums {
		nums[i] = vpSymNum("x", CB, 1)
		args[i] = nums[i].big()
	}
	isMax := vpBool("max")
	name := "min"
	if isMax {
		name = "max"
	}
	f, ok := vpBuiltin(name).(func(...*decimal.Big) (*decimal.Big, error))
	vpAssert("C18/minmax/builtin-present", ok)
	if !ok {
		return
	}
	r, err := f(args...)
	vpAssert("C18/minmax/no-error", err == nil && r != nil)
	if err != nil || r == nil {
		return
	}
	sel := -1
	for i := range args {
		if args[i] == r {
			sel = i
		}
	}
	vpAssert("C18/minmax/returns-an-argument", sel >= 0)
	if sel < 0 {
		return
	}
	bounds := true
	for i := range nums {
		o := vpNumOrder(nums[sel], nums[i])
		if isMax && o < 0 || !isMax && o > 0 {
			bounds = false
		}
	}
	vpAssert("C18/minmax/bounds-all-others", bounds)
	vpReach("C18/minmax/done")
}

// C18/conv: toInt, toFloat, toString, finite.
func VP_C18_conv() {
	CB, E := vpParam("CB"), vpParam("E")
	switch vpChoice("fn", 5) {
	case 0: // toInt truncates toward zero
		toInt, ok := vpBuiltin("toInt").(func(interface{}) (*decimal.Big, error))
		vpAssert("C18/conv/toInt-present", ok)
		if !ok {
			return
		}
		x := vpNumParamExp("x", CB, -E, 1)
		r, err := toInt(x.big())
		mag := x.coef
		if x.exp < 0 {
			mag = x.coef / uint64(vpPow10[-x.exp])
		} else {
			mag = x.coef * uint64(vpPow10[x.exp])
		}
		vpAssert("C18/toInt/truncates-toward-zero", err == nil && vpBigEq(r, x.neg, mag, 0))
	case 1: // toFloat of a number is that number
		toFloat, ok := vpBuiltin("toFloat").(func(interface{}) (*decimal.Big, error))
		vpAssert("C18/conv/toFloat-present", ok)
		if !ok {
			return
		}
		x := vpNumParamExp("x", CB, -E, 1)
		r, err := toFloat(x.big())
		vpAssert("C18/toFloat/number-is-itself", err == nil && vpBigEq(r, x.neg, x.coef, x.exp))
	case 2: // toFloat of text
		toFloat, ok := vpBuiltin("toFloat").(func(interface{}) (*decimal.Big, error))
		if !ok {
			return
		}
		n := 1 + vpChoice("n", 4)
		text := vpBytes("t", n)
		for _, c := range text {
			vpAssume(vpIsDigit(c) || c == '.' || c == 'e' || c == '-' || c == ' ' || c == 'x')
		}
		body := text
		neg := false
		if body[0] == '-' {
			neg, body = true, body[1:]
		}
		junk := false
		for _, c := range text {
			if c == ' ' || c == 'x' {
				junk = true
			}
		}
		r, err := toFloat(string(text))
		vpAssert("C18/toFloat/no-error", err == nil && r != nil)
		if err != nil || r == nil {
			return
		}
		kind, digits, frac, exp := vpRefLiteral(body)
		if junk {
			vpAssert("C18/toFloat/other-text-is-NaN", r.IsNaN(0))
		} else if len(body) > 0 && kind == vpLitWell {
			var coef uint64
			for _, d := range digits {
				coef = coef*10 + uint64(d-'0')
			}
			vpAssert("C18/toFloat/numeric-string-is-that-number", vpBigEq(r, neg, coef, exp-frac))
		}
	case 3: // toString parses back to the same number
		toString, ok1 := vpBuiltin("toString").(func(interface{}) (string, error))
		toFloat, ok2 := vpBuiltin("toFloat").(func(interface{}) (*decimal.Big, error))
		vpAssert("C18/conv/toString-present", ok1 && ok2)
		if !(ok1 && ok2) {
			return
		}
		x := vpNumParamExp("x", 1000, -E, 1)
		s, err := toString(x.big())
		vpAssert("C18/toString/no-error", err == nil)
		r, err2 := toFloat(s)
		vpAssert("C18/toString/parses-back-to-same-number", err2 == nil && vpBigEq(r, x.neg, x.coef, x.exp))
	case 4: // finite
		finite, ok := vpBuiltin("finite").(func(interface{}) (*decimal.Big, error))
		vpAssert("C18/conv/finite-present", ok)
		if !ok {
			return
		}
		switch vpChoice("arg", 6) {
		case 0:
			x := vpNumParamExp("x", CB, -E, 1)
			r, err := finite(x.big())
			vpAssert("C18/finite/finite-number-unchanged", err == nil && vpBigEq(r, x.neg, x.coef, x.exp))
		case 1:
			r, err := finite(new(decimal.Big).SetNaN(vpBool("sig")))
			vpAssert("C18/finite/NaN-is-zero", err == nil && vpBigEq(r, false, 0, 0))
		case 2:
			r, err := finite(new(decimal.Big).SetInf(vpBool("neg")))
			vpAssert("C18/finite/Inf-is-zero", err == nil && vpBigEq(r, false, 0, 0))
		case 3:
			r, err := finite(vpSymString("s", 2))
			vpAssert("C18/finite/string-is-zero", err == nil && vpBigEq(r, false, 0, 0))
		case 4:
			r, err := finite(nil)
			vpAssert("C18/finite/null-is-zero", err == nil && vpBigEq(r, false, 0, 0))
		case 5:
			r, err := finite(vpBool("b"))
			vpAssert("C18/finite/bool-is-zero", err == nil && vpBigEq(r, false, 0, 0))
		}
	}
	vpReach("C18/conv/done")
}

func vpEvalBinNum(op SyntaxKind, a, b *decimal.Big) (*decimal.Big, bool) {
	r := NewRunner()
	r.SetThis(map[string]interface{}{"a": a, "b": b})
	v, err := vpExact(r, context.Background(), vpBin(op, vpId("a"), vpId("b")))
	if err != nil {
		return nil, false
	}
	x, ok := v.(*decimal.Big)
	return x, ok
}

func vpSymInt(name string, bits int) int64 {
	// a (bits+1)-bit symbolic value shifted to [-2^bits, 2^bits): keeps the solver's multipliers narrow
	lim := int64(1) << uint(bits)
	v := int64(vpBits(name, bits+1)) - lim
	vpAssume(v > -lim)
	return v
}

// C18/bits: & | ^ ~ act on the two's-complement integer values of their operands.
func VP_C18_bits() {
	B := vpParam("B")
	a, b := vpSymInt("a", B), vpSymInt("b", B)
	// the same integers may be held as coefficient x 10^k with k > 0 (1e3, 12e2)
	K := vpParam("K")
	ka, kb := vpChoice("ka", K+1), vpChoice("kb", K+1)
	ba, bb := new(decimal.Big).SetMantScale(a, -ka), new(decimal.Big).SetMantScale(b, -kb)
	a, b = a*vpPow10[ka], b*vpPow10[kb]
	switch vpChoice("op", 4) {
	case 0:
		r, ok := vpEvalBinNum(SK_Ampersand, ba, bb)
		vpAssert("C18/bits/and", ok && vpBigIsInt64(r, a&b))
	case 1:
		r, ok := vpEvalBinNum(SK_Bar, ba, bb)
		vpAssert("C18/bits/or", ok && vpBigIsInt64(r, a|b))
	case 2:
		r, ok := vpEvalBinNum(SK_Caret, ba, bb)
		vpAssert("C18/bits/xor", ok && vpBigIsInt64(r, a^b))
	case 3:
		rn := NewRunner()
		rn.SetThis(map[string]interface{}{"a": ba})
		v, err := vpExact(rn, context.Background(), &PrefixUnaryExpression{Operator: &TokenNode{Token: SK_Tilde}, Operand: vpId("a")})
		r, ok := v.(*decimal.Big)
		vpAssert("C18/bits/not-is-minus-x-minus-one", err == nil && ok && vpBigIsInt64(r, -a-1))
	}
	vpReach("C18/bits/done")
}

// C18/bigints: toInt and the bit operators on integers of magnitude [2^LO, 2^HI).
func VP_C18_bigints() {
	LO, HI := vpParam("LO"), vpParam("HI")
	a := vpInt64("a")
	mag := a
	if a < 0 {
		mag = -a
	}
	vpAssume(mag >= int64(1)<<uint(LO) && mag < int64(1)<<uint(HI))
	ba := new(decimal.Big).SetMantScale(a, 0)
	switch vpChoice("op", 2) {
	case 0:
		toInt, ok := vpBuiltin("toInt").(func(interface{}) (*decimal.Big, error))
		if !ok {
			return
		}
		r, err := toInt(ba)
		vpAssert("C18/toInt/large-integer-unchanged", err == nil && vpBigIsInt64(r, a))
	case 1:
		r, ok := vpEvalBinNum(SK_Ampersand, ba, ba)
		vpAssert("C18/bits/and-large-integer-with-itself", ok && vpBigIsInt64(r, a))
	}
	vpReach("C18/bigints/done")
}

// C18/tostring: toString of a number parses back to the same number, over
// exponents on both sides of the plain / scientific notation switch.
func VP_C18_tostring() {
	CB, E := vpParam("CB"), vpParam("E")
	toString, ok1 := vpBuiltin("toString").(func(interface{}) (string, error))
	toFloat, ok2 := vpBuiltin("toFloat").(func(interface{}) (*decimal.Big, error))
	vpAssert("C18/tostring/present", ok1 && ok2)
	if !(ok1 && ok2) {
		return
	}
	x := vpNumParamExp("x", CB, -E, E)
	s, err := toString(x.big())
	vpAssert("C18/toString/no-error", err == nil)
	r, err2 := toFloat(s)
	vpObserve("text", s)
	vpAssert("C18/toString/parses-back-to-same-number", err2 == nil && vpBigEq(r, x.neg, x.coef, x.exp))
	vpReach("C18/tostring/done")
}

func init() {
	vpHarnesses["VP_C18_roundlarge"] = VP_C18_roundlarge
}

// C18/roundlarge: the rounding builtins on arguments of LARGE magnitude
// (16..31 digit integers, ties whose integer part has 17-18 digits): the
// definitions do not stop at 10^15 / 10^16 (a 64-bit decimal context, a float64
// or an int64 detour would).
func VP_C18_roundlarge() {
	pool := []struct {
		coef uint64
		exp  int
	}{
		{25, 15}, {1, 16}, {1, 20}, {1, 30}, {9007199254740993, 0}, {9999999999999999, 1},
		{123456789012345675, -1}, {123456789012345665, -1}, {123456789012345651, -1}, {123456789012345649, -1},
		{1234567890123456789, 0}, {99999999999999995, -1}, {10000000000000000, 0}, {100000000000000005, -1},
		{9223372036854775807, 0}, {9223372036854775807, 3}, {18446744073709551615, 0}, {1844674407370955161, -1},
	}
	pi := vpChoice("x", len(pool))
	neg := vpBool("neg")
	coef, exp := pool[pi].coef, pool[pi].exp
	mk := func(neg bool, c uint64, e int) *decimal.Big {
		b := new(decimal.Big).SetUint64(c)
		b.SetScale(-e)
		if neg {
			b.SetSignbit(true) // not Neg: that rounds to the receiver's (16-digit default) context
		}
		return b
	}
	name := []string{"abs", "ceil", "floor", "round", "roundBank"}[vpChoice("fn", 5)]
	f, ok := vpBuiltin(name).(func(*decimal.Big) (*decimal.Big, error))
	vpAssert("C18/roundlarge/builtin-present", ok)
	if !ok {
		return
	}
	arg := mk(neg, coef, exp)
	r, err := f(arg)
	vpObserve("roundlarge", pi, neg, name, vpShowValue(r))
	vpAssert("C18/roundlarge/no-error", err == nil && r != nil)
	if err != nil || r == nil {
		return
	}
	eq := func(r *decimal.Big, neg bool, c uint64, e int) bool {
		return r.IsFinite() && r.Cmp(mk(neg, c, e)) == 0
	}
	vpAssert("C18/roundlarge/argument-not-mutated", eq(arg, neg, coef, exp))
	if name == "abs" {
		vpAssert("C18/roundlarge/abs-is-magnitude", eq(r, false, coef, exp))
		vpReach("C18/roundlarge/done")
		return
	}
	if exp >= 0 {
		vpAssert("C18/roundlarge/"+name+"-integer-unchanged", eq(r, neg, coef, exp))
		vpReach("C18/roundlarge/done")
		return
	}
	q, rem := coef/10, coef%10 // every fractional pool entry has exp = -1
	lower, upper := eq(r, neg, q, 0), eq(r, neg, q+1, 0)
	switch name {
	case "ceil", "floor":
		up := (name == "floor") == neg
		if up && rem > 0 {
			vpAssert("C18/roundlarge/"+name+"-definition", upper)
		} else {
			vpAssert("C18/roundlarge/"+name+"-definition", lower)
		}
	default:
		switch {
		case rem < 5:
			vpAssert("C18/roundlarge/"+name+"-nearest", lower)
		case rem > 5:
			vpAssert("C18/roundlarge/"+name+"-nearest", upper)
		case name == "round":
			vpAssert("C18/roundlarge/round-within-half", lower || upper)
		case q%2 == 0:
			vpAssert("C18/roundlarge/roundBank-ties-to-even", lower)
		default:
			vpAssert("C18/roundlarge/roundBank-ties-to-even", upper)
		}
	}
	vpReach("C18/roundlarge/done")
}
