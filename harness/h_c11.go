package formula

import (
	"context"
	"errors"
	"strconv"
	"strings"
	"time"

	"github.com/ericlagergren/decimal"
)

func init() {
	vpHarnesses["VP_C11_history"] = VP_C11_history
	vpHarnesses["VP_C11_hostcalls"] = VP_C11_hostcalls
	vpHarnesses["VP_C11_results"] = VP_C11_results
}

// parameter kinds of the signature pool
const (
	pkString = iota
	pkInt
	pkBool
	pkIface
	pkStrings // []string
	pkInts    // []int
	pkMapInt  // map[string]int
	pkTime
	pkDecimal // *decimal.Big
	pkFloat64
	pkInt8
	pkIfaces // []interface{}
	pkInt32s // []int32
	pkBytes  // []byte
)

type vpSig struct {
	name     string
	params   []int
	variadic bool // last param kind is the element kind of the variadic tail
	ctx      bool
}

var vpSigs = []vpSig{
	{"hString", []int{pkString}, false, false},
	{"hStrInt", []int{pkString, pkInt}, false, false},
	{"hCtx", []int{pkString, pkDecimal}, false, true},
	{"hIface", []int{pkIface}, false, false},
	{"hStrings", []int{pkStrings}, false, false},
	{"hVarStr", []int{pkInt, pkString}, true, false},
	{"hMap", []int{pkMapInt}, false, false},
	{"hTime", []int{pkTime}, false, false},
	{"hBool", []int{pkBool}, false, false},
	{"hVarIface", []int{pkIface}, true, false},
	{"hInts", []int{pkInts}, false, false},
	{"hNums", []int{pkInt8, pkFloat64}, false, false},
	{"hNoArgs", nil, false, false},
	{"hCtxVar", []int{pkString}, true, true},
	{"hInt32s", []int{pkInt32s}, false, false},
	{"hBytes", []int{pkBytes}, false, false},
}

// vpCtx is a distinguishable context value (context.WithValue needs reflectlite).
type vpCtx struct {
	context.Context
	tag int
}

type vpCallLog struct {
	entries []string
	ctxOK   bool
}

func (l *vpCallLog) add(s string) { l.entries = append(l.entries, s) }

func vpFmtStrings(xs []string) string { return "[" + strings.Join(xs, "|") + "]" }

func vpHostFuncs(l *vpCallLog, ctx context.Context) map[string]interface{} {
	return map[string]interface{}{
		"hString": func(s string) (int, error) { l.add("hString(" + s + ")"); return 1, nil },
		"hStrInt": func(s string, n int) (int, error) { l.add("hStrInt(" + s + "," + strconv.Itoa(n) + ")"); return 1, nil },
		"hCtx": func(c context.Context, a string, b *decimal.Big) (int, error) {
			l.ctxOK = c == ctx
			bs := "nil"
			if b != nil {
				bs = b.String()
			}
			l.add("hCtx(" + a + "," + bs + ")")
			return 1, nil
		},
		"hIface": func(x interface{}) (int, error) {
			if x == nil {
				l.add("hIface(nil)")
			} else {
				l.add("hIface(" + vpShowArg(x) + ")")
			}
			return 1, nil
		},
		"hStrings": func(xs []string) (int, error) { l.add("hStrings(" + vpFmtStrings(xs) + ")"); return 1, nil },
		"hVarStr": func(a int, rest ...string) (int, error) {
			l.add("hVarStr(" + strconv.Itoa(a) + "," + vpFmtStrings(rest) + ")")
			return 1, nil
		},
		"hMap": func(m map[string]int) (int, error) {
			l.add("hMap(k=" + strconv.Itoa(m["k"]) + ",n=" + strconv.Itoa(len(m)) + ")")
			return 1, nil
		},
		"hTime": func(t time.Time) (int, error) { l.add("hTime(" + strconv.Itoa(t.Year()) + ")"); return 1, nil },
		"hBool": func(b bool) (int, error) { l.add("hBool(" + strconv.FormatBool(b) + ")"); return 1, nil },
		"hVarIface": func(xs ...interface{}) (int, error) {
			parts := make([]string, len(xs))
			for i, x := range xs {
				if x == nil {
					parts[i] = "nil"
				} else {
					parts[i] = vpShowArg(x)
				}
			}
			l.add("hVarIface(" + vpFmtStrings(parts) + ")")
			return 1, nil
		},
		"hInts": func(xs []int) (int, error) {
			parts := make([]string, len(xs))
			for i, x := range xs {
				parts[i] = strconv.Itoa(x)
			}
			l.add("hInts(" + vpFmtStrings(parts) + ")")
			return 1, nil
		},
		"hNums": func(a int8, b float64) (int, error) {
			l.add("hNums(" + strconv.Itoa(int(a)) + "," + strconv.FormatFloat(b, 'g', -1, 64) + ")")
			return 1, nil
		},
		"hNoArgs": func() (int, error) { l.add("hNoArgs()"); return 1, nil },
		"hInt32s": func(xs []int32) (int, error) {
			parts := make([]string, len(xs))
			for i, x := range xs {
				parts[i] = strconv.Itoa(int(x))
			}
			l.add("hInt32s(" + vpFmtStrings(parts) + ")")
			return 1, nil
		},
		"hBytes": func(xs []byte) (int, error) { l.add("hBytes(" + strconv.Itoa(len(xs)) + ")"); return 1, nil },
		"hCtxVar": func(c context.Context, rest ...string) (int, error) {
			l.ctxOK = c == ctx
			l.add("hCtxVar(" + vpFmtStrings(rest) + ")")
			return 1, nil
		},
	}
}

func vpShowArg(x interface{}) string {
	switch v := x.(type) {
	case string:
		return "s:" + v
	case bool:
		return "b:" + strconv.FormatBool(v)
	case *decimal.Big:
		return "n:" + v.String()
	case time.Time:
		return "t:" + strconv.Itoa(v.Year())
	case []interface{}:
		return "a:" + strconv.Itoa(len(v))
	case map[string]interface{}:
		return "m:" + strconv.Itoa(len(v))
	}
	return "?"
}

// argument values of the formula
const (
	avNull = iota
	avBool
	avNumber
	avString
	avStrArr // ['x','y']
	avNumArr // [1, 2]
	avMap    // {k: 3}
	avTime
	avKinds
)

type vpArg struct {
	kind int
	b    bool
	num  int // index into vpNumPool
	s    string
}

var vpNumPool = []struct {
	c     int64
	scale int
	text  string // decimal's String()
	trunc int    // truncation toward zero
	f     string // nearest float64, formatted
}{{0, 0, "0", 0, "0"}, {7, 0, "7", 7, "7"}, {-7, 0, "-7", -7, "-7"}, {25, 1, "2.5", 2, "2.5"}, {-25, 1, "-2.5", -2, "-2.5"}, {7, 1, "0.7", 0, "0.7"}, {-19, 1, "-1.9", -1, "-1.9"}}

func vpSymArg() vpArg {
	a := vpArg{kind: vpChoice("av", avKinds)}
	switch a.kind {
	case avBool:
		a.b = vpBool("ab")
	case avNumber:
		a.num = vpChoice("an", len(vpNumPool))
	case avString:
		a.s = string(vpBytes("as", vpChoice("al", 2)))
	}
	return a
}

func (a vpArg) value() interface{} {
	switch a.kind {
	case avBool:
		return a.b
	case avNumber:
		p := vpNumPool[a.num]
		return new(decimal.Big).SetMantScale(p.c, p.scale)
	case avString:
		return a.s
	case avStrArr:
		return []interface{}{"x", "y"}
	case avNumArr:
		return []interface{}{new(decimal.Big).SetMantScale(1, 0), new(decimal.Big).SetMantScale(2, 0)}
	case avMap:
		return map[string]interface{}{"k": new(decimal.Big).SetMantScale(3, 0)}
	case avTime:
		return time.Date(2021, 5, 6, 0, 0, 0, 0, time.UTC)
	}
	return nil
}

// vpConvString: how the statement's conversion rules render argument a for a
// parameter of kind pk inside the host function's log; ok=false: cannot be converted.
func vpConvArg(a vpArg, pk int) (string, bool) {
	switch pk {
	case pkString:
		switch a.kind {
		case avNull:
			return "", true
		case avString:
			return a.s, true
		case avBool:
			return strconv.FormatBool(a.b), true
		case avNumber:
			return vpNumPool[a.num].text, true
		}
		return "", false // formatting of composite values: not judged (see dontCare)
	case pkInt, pkInt8:
		if a.kind == avNumber {
			return strconv.Itoa(vpNumPool[a.num].trunc), true
		}
		return "", false
	case pkFloat64:
		if a.kind == avNumber {
			return vpNumPool[a.num].f, true
		}
		return "", false
	case pkBool:
		if a.kind == avBool {
			return strconv.FormatBool(a.b), true
		}
		return "", false
	case pkIface:
		switch a.kind {
		case avNull:
			return "nil", true
		case avString:
			return "s:" + a.s, true
		case avBool:
			return "b:" + strconv.FormatBool(a.b), true
		case avNumber:
			return "n:" + vpNumPool[a.num].text, true
		case avStrArr, avNumArr:
			return "a:2", true
		case avMap:
			return "m:1", true
		case avTime:
			return "t:2021", true
		}
	case pkStrings:
		switch a.kind {
		case avStrArr:
			return "[x|y]", true
		case avNumArr:
			return "[1|2]", true
		}
		return "", false
	case pkInts:
		if a.kind == avNumArr {
			return "[1|2]", true
		}
		return "", false
	case pkInt32s:
		// arrays element-wise; a string is not an array
		if a.kind == avNumArr {
			return "[1|2]", true
		}
		return "", false
	case pkBytes:
		return "", false // (number arrays: don't-care, see the caller; nothing else is an array of bytes)
	case pkMapInt:
		if a.kind == avMap {
			return "k=3,n=1", true
		}
		return "", false
	case pkTime:
		if a.kind == avTime {
			return "2021", true
		}
		return "", false
	case pkDecimal:
		if a.kind == avNumber {
			return vpNumPool[a.num].text, true
		}
		return "", false
	}
	return "", false
}

// C11/hostcalls: a host function is invoked exactly once with the converted
// arguments in order, or not at all with an error.
func VP_C11_hostcalls() {
	A := vpParam("A")
	var ctx context.Context = vpCtx{context.Background(), 7}
	sig := vpSigs[vpChoice("sig", len(vpSigs))]
	n := vpChoice("argc", A+1)
	spread := vpBool("spread")
	log := &vpCallLog{}
	data := vpHostFuncs(log, ctx)
	args := make([]vpArg, n)
	list := new(NodeList[Expression])
	names := vpArgNames()
	for i := range args {
		args[i] = vpSymArg()
		data[names[i]] = args[i].value()
		list.Add(vpId(names[i]))
	}
	call := &CallExpression{Expression: vpId(sig.name), Arguments: list}
	if spread {
		call.DotDotDotToken = &TokenNode{Token: SK_DotDotDot}
	}
	// ---- oracle ----
	np := len(sig.params)
	wantErr := false
	dontCare := false
	var parts []string
	effective := args
	if spread {
		if !sig.variadic || n == 0 {
			wantErr = true
		} else {
			last := args[n-1]
			switch last.kind {
			case avStrArr:
				effective = append(append([]vpArg{}, args[:n-1]...), vpArg{kind: avString, s: "x"}, vpArg{kind: avString, s: "y"})
			case avNumArr:
				effective = append(append([]vpArg{}, args[:n-1]...), vpArg{kind: avNumber, num: 1}, vpArg{kind: avNumber, num: 1})
				dontCare = true // element values 1, 2 are not in the number pool: only arity/kind are judged
			default:
				wantErr = true // spread of a non-array
			}
			if n != np {
				wantErr = true // f(a, xs...) : the spread argument takes the place of the variadic parameter
			}
		}
	} else if sig.variadic {
		if n < np-1 {
			wantErr = true
		}
	} else if n != np {
		wantErr = true
	}
	if !wantErr {
		for i, a := range effective {
			pk := 0
			if sig.variadic && i >= np-1 {
				pk = sig.params[np-1]
			} else {
				pk = sig.params[i]
			}
			if pk == pkString && (a.kind == avStrArr || a.kind == avNumArr || a.kind == avMap || a.kind == avTime) {
				dontCare = true // "anything to string by formatting": the exact text of composites is not specified
			}
			if pk == pkBytes && a.kind == avNumArr {
				dontCare = true // numbers to unsigned 8-bit elements: the statement speaks of Go integers by truncation, the code refuses unsigned kinds
			}
			s, ok := vpConvArg(a, pk)
			if !ok {
				wantErr = true
				break
			}
			parts = append(parts, s)
		}
	}
	// ---- evaluation ----
	r := NewRunner()
	r.SetThis(data)
	v, err := r.Resolve(ctx, call)
	vpObserve("call", sig.name, n, spread, err != nil, len(log.entries))
	vpAssert("C11/hostcalls/at-most-one-invocation", len(log.entries) <= 1)
	if dontCare {
		vpReach("C11/hostcalls/dont-care")
		return
	}
	if wantErr {
		vpAssert("C11/hostcalls/misfit-is-error", err != nil && v == nil)
		vpAssert("C11/hostcalls/misfit-not-invoked", len(log.entries) == 0)
		vpReach("C11/hostcalls/error")
		return
	}
	vpAssert("C11/hostcalls/fit-no-error", err == nil)
	vpAssert("C11/hostcalls/invoked-exactly-once", len(log.entries) == 1)
	if len(log.entries) == 1 {
		want := sig.name + "("
		switch {
		case sig.name == "hMap" || sig.name == "hTime" || sig.name == "hBool" || sig.name == "hString" || sig.name == "hIface" || sig.name == "hStrings" || sig.name == "hInts" || sig.name == "hInt32s":
			want += parts[0]
		case sig.name == "hNoArgs":
		case sig.variadic:
			fixed := parts
			var tail []string
			if len(parts) >= np-1 {
				fixed, tail = parts[:np-1], parts[np-1:]
			}
			if len(fixed) > 0 {
				want += strings.Join(fixed, ",") + ","
			}
			want += vpFmtStrings(tail)
		default:
			want += strings.Join(parts, ",")
		}
		want += ")"
		vpObserve("log", log.entries[0], want)
		vpAssert("C11/hostcalls/converted-arguments-in-order", log.entries[0] == want)
	}
	if sig.ctx {
		vpAssert("C11/hostcalls/context-passed", log.ctxOK)
	}
	if f, ok := v.(float64); ok {
		vpAssert("C11/hostcalls/returned-int-becomes-number", f == 1)
	} else {
		vpAssert("C11/hostcalls/returned-int-becomes-number", false)
	}
	vpReach("C11/hostcalls/value")
}

// C11/results: a returned error aborts evaluation with an error naming the
// function; returned Go numbers become formula numbers.
func VP_C11_results() {
	fail := vpBool("fail")
	calls := 0
	mk := func() error {
		calls++
		if fail {
			return errors.New("boom")
		}
		return nil
	}
	data := map[string]interface{}{
		"rInt":   func() (int, error) { return -3, mk() },
		"rInt32": func() (int32, error) { return 40, mk() },
		"rInt64": func() (int64, error) { return 1 << 40, mk() },
		"rF32":   func() (float32, error) { return 0.5, mk() },
		"rF64":   func() (float64, error) { return 0.1, mk() },
		// the same Go numbers behind an interface-typed result
		"rIfInt": func() (interface{}, error) { return 41, mk() },
		"rIfI64": func() (interface{}, error) { return int64(1 << 41), mk() },
		"rIfF64": func() (interface{}, error) { return 2.5, mk() },
		"rIfI32": func() (interface{}, error) { return int32(-9), mk() },
		"rIfF32": func() (interface{}, error) { return float32(0.25), mk() },
	}
	names := []string{"rInt", "rInt32", "rInt64", "rF32", "rF64", "rIfInt", "rIfI64", "rIfF64", "rIfI32", "rIfF32"}
	want := []float64{-3, 40, 1 << 40, 0.5, 0.1, 41, 1 << 41, 2.5, -9, 0.25}
	i := vpChoice("fn", len(names))
	r := NewRunner()
	r.SetThis(data)
	// (f() + 0) forces the returned Go number through the number path
	expr := vpBin(SK_Plus, &CallExpression{Expression: vpId(names[i]), Arguments: new(NodeList[Expression])}, vpNumLit(0))
	v, err := r.Resolve(context.Background(), expr)
	vpAssert("C11/results/invoked-once", calls == 1)
	if fail {
		vpAssert("C11/results/error-aborts", err != nil && v == nil)
		if err != nil {
			vpAssert("C11/results/error-names-the-function", strings.Contains(err.Error(), names[i]))
		}
		vpReach("C11/results/error")
		return
	}
	f, ok := v.(float64)
	vpAssert("C11/results/go-number-becomes-formula-number", err == nil && ok && f == want[i])
	// the bare call and its kind
	calls = 0
	v2, err2 := r.Resolve(context.Background(), &CallExpression{Expression: vpId(names[i]), Arguments: new(NodeList[Expression])})
	f2, ok2 := v2.(float64)
	vpAssert("C11/results/bare-call-is-a-number", err2 == nil && ok2 && f2 == want[i] && calls == 1)
	v3, err3 := r.Resolve(context.Background(), &TypeOfExpression{Expression: &CallExpression{Expression: vpId(names[i]), Arguments: new(NodeList[Expression])}})
	vpAssert("C11/results/kind-is-number", err3 == nil && v3 == "number")
	vpReach("C11/results/value")
}

// C11/history: the declared signature is the one of the function found at the
// time of each call (a name may be rebound between evaluations by the same
// runner), and arguments - including a spread operand - are evaluated left to right.
func VP_C11_history() {
	var log []string
	f1 := func(a int) (int, error) { log = append(log, "f1("+strconv.Itoa(a)+")"); return 1, nil }
	f2 := func(a int, b string) (int, error) { log = append(log, "f2("+strconv.Itoa(a)+","+b+")"); return 2, nil }
	fv := func(first interface{}, xs ...interface{}) (int, error) {
		parts := make([]string, len(xs)+1)
		for i, x := range append([]interface{}{first}, xs...) {
			if x == nil {
				parts[i] = "nil"
			} else {
				parts[i] = vpShowArg(x)
			}
		}
		log = append(log, "fv("+vpFmtStrings(parts)+")")
		return 3, nil
	}
	ctx := context.Background()
	r := NewRunner()
	num := func(v int64) *LiteralExpression { return vpLit(SK_NumberLiteral, strconv.FormatInt(v, 10)) }
	callF := func(args ...Expression) *CallExpression {
		return &CallExpression{Expression: vpId("f"), Arguments: vpList(args...)}
	}
	switch vpChoice("scenario", 4) {
	case 0: // rebind through SetThisValue to a different signature
		first := vpBool("firstIsTwoArgs")
		if first {
			r.SetThisValue("f", f2)
			_, e := r.Resolve(ctx, callF(num(1), vpLit(SK_StringLiteral, "s")))
			vpAssert("C11/history/first-call", e == nil && len(log) == 1 && log[0] == "f2(1,s)")
			r.SetThisValue("f", f1)
			_, e2 := r.Resolve(ctx, callF(num(5)))
			vpAssert("C11/history/rebound-function-called-as-declared", e2 == nil && len(log) == 2 && log[1] == "f1(5)")
			_, e3 := r.Resolve(ctx, callF(num(5), vpLit(SK_StringLiteral, "s")))
			vpAssert("C11/history/rebound-misfit-is-error-and-not-invoked", e3 != nil && len(log) == 2)
		} else {
			r.SetThisValue("f", f1)
			_, e := r.Resolve(ctx, callF(num(1)))
			vpAssert("C11/history/first-call", e == nil && len(log) == 1 && log[0] == "f1(1)")
			r.SetThisValue("f", f2)
			_, e2 := r.Resolve(ctx, callF(num(5), vpLit(SK_StringLiteral, "s")))
			vpAssert("C11/history/rebound-function-called-as-declared", e2 == nil && len(log) == 2 && log[1] == "f2(5,s)")
			_, e3 := r.Resolve(ctx, callF(num(5)))
			vpAssert("C11/history/rebound-misfit-is-error-and-not-invoked", e3 != nil && len(log) == 2)
		}
	case 1: // rebind through an assignment inside a formula: $g = f2, then $g(...)
		r.SetThis(map[string]interface{}{"f1": f1, "f2": f2})
		callG := func(args ...Expression) *CallExpression {
			return &CallExpression{Expression: vpId("$g"), Arguments: vpList(args...)}
		}
		_, e := r.Resolve(ctx, vpBin(SK_Comma, vpBin(SK_Equals, vpId("$g"), vpId("f1")), callG(num(7))))
		vpAssert("C11/history/local-function", e == nil && len(log) == 1 && log[0] == "f1(7)")
		_, e2 := r.Resolve(ctx, vpBin(SK_Comma, vpBin(SK_Equals, vpId("$g"), vpId("f2")), callG(num(8), vpLit(SK_StringLiteral, "t"))))
		vpAssert("C11/history/local-function-rebound", e2 == nil && len(log) == 2 && log[1] == "f2(8,t)")
	case 2: // f($x = 5, [$x, 1]...): the spread operand is evaluated after the earlier argument
		r.SetThis(map[string]interface{}{"f": fv})
		call := callF(vpBin(SK_Equals, vpId("$x"), num(5)), &ArrayLiteralExpression{Elements: vpList(vpId("$x"), num(1))})
		call.DotDotDotToken = &TokenNode{Token: SK_DotDotDot}
		_, e := r.Resolve(ctx, call)
		vpAssert("C11/history/spread-evaluated-left-to-right", e == nil && len(log) == 1 && log[0] == "fv([n:5|n:5|n:1])")
	case 3: // f(fail(), g()...): an error on the left aborts before anything to its right runs
		calls := 0
		r.SetThis(map[string]interface{}{"f": fv,
			"fail": func() (int, error) { return 0, errors.New("boom") },
			"load": func() ([]interface{}, error) { calls++; return []interface{}{1}, nil }})
		call := callF(&CallExpression{Expression: vpId("fail"), Arguments: vpList()}, &CallExpression{Expression: vpId("load"), Arguments: vpList()})
		call.DotDotDotToken = &TokenNode{Token: SK_DotDotDot}
		_, e := r.Resolve(ctx, call)
		vpAssert("C11/history/left-error-aborts-before-right", e != nil && calls == 0 && len(log) == 0)
	}
	vpReach("C11/history/done")
}

func init() {
	vpHarnesses["VP_C11_nested"] = VP_C11_nested
}

// C11/nested: arguments are evaluated left to right and each call receives its
// own arguments, also when an argument is itself a call and when the runner
// has evaluated calls before (earlier evaluation, or earlier in the formula).
func VP_C11_nested() {
	var log []string
	add := func(s string) { log = append(log, s) }
	it := strconv.Itoa
	data := map[string]interface{}{
		"f3": func(a, b, c int) (int, error) {
			add("f3(" + it(a) + "," + it(b) + "," + it(c) + ")")
			return a + b + c, nil
		},
		"g1": func(x int) (int, error) { add("g1(" + it(x) + ")"); return x + 1, nil },
		"g2": func(x, y int) (int, error) { add("g2(" + it(x) + "," + it(y) + ")"); return x + y, nil },
		"mk": func(x int) ([]interface{}, error) { add("mk(" + it(x) + ")"); return []interface{}{x, x + 1}, nil },
		"obj": func(x int) (map[string]interface{}, error) {
			add("obj(" + it(x) + ")")
			return map[string]interface{}{"k": x}, nil
		},
		"v3": func(a int, rest ...int) (int, error) {
			s := "v3(" + it(a)
			for _, r := range rest {
				s += "," + it(r)
			}
			add(s + ")")
			return a + len(rest), nil
		},
	}
	pool := []struct {
		f    string
		want []string
		val  float64
	}{
		{"f3(1, g1(4), 3)", []string{"g1(4)", "f3(1,5,3)"}, 9},
		{"f3(g1(4), 2, 3)", []string{"g1(4)", "f3(5,2,3)"}, 10},
		{"f3(1, 2, g1(4))", []string{"g1(4)", "f3(1,2,5)"}, 8},
		{"f3(1, g2(2, g1(3)), 4)", []string{"g1(3)", "g2(2,4)", "f3(1,6,4)"}, 11},
		{"f3(g1(1), g1(2), g1(3))", []string{"g1(1)", "g1(2)", "g1(3)", "f3(2,3,4)"}, 9},
		{"v3(1, g1(4), 3, g2(1, 1))", []string{"g1(4)", "g2(1,1)", "v3(1,5,3,2)"}, 4},
		{"g2(7, f3(1, g1(1), 1))", []string{"g1(1)", "f3(1,2,1)", "g2(7,4)"}, 11},
		{"v3(g1(1), mk(5)...)", []string{"g1(1)", "mk(5)", "v3(2,5,6)"}, 4},
		{"obj(3)!.k + 1", []string{"obj(3)"}, 4}, {"obj(3).k + obj(4)!.k", []string{"obj(3)", "obj(4)"}, 7}, {"g1(obj(1)!.k)", []string{"obj(1)", "g1(1)"}, 2},
		{"v3(g1(1), mk(g1(3))...)", []string{"g1(1)", "g1(3)", "mk(4)", "v3(2,4,5)"}, 4},
	}
	p := pool[vpChoice("f", len(pool))]
	r := NewRunner()
	r.SetThis(data)
	src := p.f
	pre := vpChoice("pre", 3)
	switch pre {
	case 1: // an earlier evaluation by the same runner
		if c0, perr := ParseSourceCode([]byte("f3(9, 8, 7)")); perr == nil {
			r.Resolve(context.Background(), c0.Expression)
		}
		log = nil
	case 2: // an earlier call in the same formula
		src = "(g2(9, 8), " + p.f + ")"
	}
	code, perr := ParseSourceCode([]byte(src))
	vpAssert("C11/nested/parses", perr == nil)
	if perr != nil {
		return
	}
	v, err := r.Resolve(context.Background(), code.Expression)
	want := p.want
	if pre == 2 {
		want = append([]string{"g2(9,8)"}, want...)
	}
	vpObserve("nested", src, strings.Join(log, ";"))
	vpAssert("C11/nested/no-error", err == nil)
	vpAssert("C11/nested/each-call-once-left-to-right-with-its-own-arguments", strings.Join(log, ";") == strings.Join(want, ";"))
	f, ok := v.(float64)
	vpAssert("C11/nested/value", ok && f == p.val)
	vpReach("C11/nested/done")
}

func init() {
	vpHarnesses["VP_C11_trunc"] = VP_C11_trunc
}

// C11/trunc: numbers become Go integers by truncation toward zero and floats by
// the nearest value, for a symbolic coefficient (the bridge goes through binary
// floating point: decided by the solver's floating-point theory).
func VP_C11_trunc() {
	B, E := vpParam("B"), vpParam("E")
	c := vpBits("c", B)
	e := vpChoice("e", 2*E+1) - E
	neg := vpBool("neg")
	x := vpNum{neg: neg, coef: c, exp: e}
	var gotInt int
	var gotI64 int64
	var gotF float64
	calls := 0
	data := map[string]interface{}{
		"x":  x.big(),
		"hi": func(n int) (int, error) { calls++; gotInt = n; return 0, nil },
		"hl": func(n int64) (int, error) { calls++; gotI64 = n; return 0, nil },
		"hf": func(f float64) (int, error) { calls++; gotF = f; return 0, nil },
	}
	which := vpChoice("fn", 3)
	r := NewRunner()
	r.SetThis(data)
	_, err := r.Resolve(context.Background(), &CallExpression{Expression: vpId([]string{"hi", "hl", "hf"}[which]), Arguments: vpList(vpId("x"))})
	vpAssert("C11/trunc/no-error", err == nil)
	vpAssert("C11/trunc/called-once", calls == 1)
	if err != nil || calls != 1 {
		return
	}
	// |x| truncated toward zero, computed in integers
	mag := c
	if e < 0 {
		mag = c / uint64(vpPow10[-e])
	} else {
		mag = c * uint64(vpPow10[e])
	}
	want := int64(mag)
	if neg {
		want = -want
	}
	switch which {
	case 0:
		vpAssert("C11/trunc/int-truncates-toward-zero", int64(gotInt) == want)
	case 1:
		vpAssert("C11/trunc/int64-truncates-toward-zero", gotI64 == want)
	case 2:
		// the nearest float64: for an integer-valued x below 2^53 it is exact
		if e >= 0 {
			vpAssert("C11/trunc/float-of-integer-is-exact", gotF == float64(want))
		} else {
			// within one unit in the last place of the quotient: floor(|x|) <= |f| <= floor(|x|)+1
			f := gotF
			if neg {
				f = -f
			}
			vpAssert("C11/trunc/float-brackets-the-value", f >= float64(mag) && f <= float64(mag+1))
		}
	}
	vpReach("C11/trunc/done")
}

func init() {
	vpHarnesses["VP_C11_truncpool"] = VP_C11_truncpool
}

// C11/truncpool: numbers with MANY digits (quotients, long fractions) become Go
// integers by truncation toward zero - not by rounding - whatever their digit
// count.  Every pool value is far enough from an integer that the float64
// bridge of the conversion cannot carry it across one (see Outside).
func VP_C11_truncpool() {
	pool := []struct {
		src  string
		want int64
	}{
		{"20/3", 6}, {"0-20/3", -6}, {"1234567890123.756", 1234567890123}, {"123456789012345.5", 123456789012345}, {"1000/7", 142},
		{"1234567.50000000000001", 1234567}, {"10/4", 2}, {"7/2", 3}, {"0-5/2", -2}, {"2/3", 0}, {"0-2/3", 0}, {"1e15/3", 333333333333333},
		{"2e15/3", 666666666666666}, {"-6.5", -6}, {"6.5000000000000000000000001", 6}, {"-7.9999999999", -7}, {"0.5", 0}, {"-0.5", 0}, {"1.5", 1}, {"2.5", 2},
		{"8.75000000000000000", 8}, {"0-100/6", -16}, {"99999.99999", 99999},
	}
	pi := vpChoice("x", len(pool))
	which := vpChoice("fn", 4)
	var got int64
	calls := 0
	data := map[string]interface{}{
		"hi":  func(n int) (int, error) { calls++; got = int64(n); return 0, nil },
		"hl":  func(n int64) (int, error) { calls++; got = n; return 0, nil },
		"h32": func(n int32) (int, error) { calls++; got = int64(n); return 0, nil },
		"hs":  func(ns []int64) (int, error) { calls++; got = ns[len(ns)-1]; return 0, nil },
	}
	name := []string{"hi", "hl", "h32", "hs"}[which]
	if name == "h32" && (pool[pi].want > 1<<31-1 || pool[pi].want < -(1<<31)) {
		vpReach("C11/truncpool/done")
		return
	}
	text := name + "(" + pool[pi].src + ")"
	if name == "hs" {
		text = name + "([1, " + pool[pi].src + "])"
	}
	code, perr := ParseSourceCode([]byte(text))
	vpAssert("C11/truncpool/parses", perr == nil)
	if perr != nil {
		return
	}
	r := NewRunner()
	r.SetThis(data)
	_, err := r.Resolve(context.Background(), code.Expression)
	vpObserve("truncpool", pi, which, got)
	vpAssert("C11/truncpool/no-error", err == nil)
	vpAssert("C11/truncpool/called-once", calls == 1)
	if err != nil || calls != 1 {
		return
	}
	vpAssert("C11/truncpool/truncates-toward-zero", got == pool[pi].want)
	vpReach("C11/truncpool/done")
}
