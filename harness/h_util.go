package formula

import (
	"context"
	"errors"
)

// vpExact evaluates e through the PUBLIC entry point Runner.Resolve and still
// hands back the exact value (a *decimal.Big stays a *decimal.Big): the
// expression is wrapped in a one-element array literal, whose element Resolve
// returns unchanged (only a top-level number is converted to float64).
func vpExact(r *Runner, ctx context.Context, e Expression) (interface{}, error) {
	v, err := r.Resolve(ctx, &ArrayLiteralExpression{Elements: vpList(e)})
	if err != nil {
		return nil, err
	}
	arr, ok := v.([]interface{})
	if !ok || len(arr) != 1 {
		return nil, errors.New("vpExact: the array literal did not evaluate to a one-element array")
	}
	return arr[0], nil
}
