package formula

import (
	"context"
	"time"
)

func init() {
	vpHarnesses["VP_C19_date"] = VP_C19_date
	vpHarnesses["VP_C19_fields"] = VP_C19_fields
	vpHarnesses["VP_C19_zone"] = VP_C19_zone
}

// ---------------------------------------------------------------------------
// The calendar and zone rules of package time cannot be encoded for the solver
// (calendar arithmetic on symbolic years times out in every back end), so in
// the engine package time is *environment*: its civil-field functions become
// uninterpreted functions of (instant, zone).  What the solver then decides,
// for all arguments, is the wiring of the date builtins to those primitives.
// Natively nothing is replaced: the same assertions compare the builtins with
// the real time package and with an independent days-from-civil computation.

var vpZoneE8 = time.FixedZone("E8", 8*3600)

// vpZoneLMT: a zone whose offset is not a whole number of minutes before 1901
// (Asia/Shanghai local mean time, +08:05:43). Engine: an opaque zone.
var vpZoneLMT = func() *time.Location {
	if l, err := time.LoadLocation("Asia/Shanghai"); err == nil {
		return l
	}
	return time.FixedZone("Asia/Shanghai", 8*3600+343)
}()

// vpZoneDST: a zone with daylight saving. Natively the real America/New_York;
// in the engine (no zone database, time is environment) an opaque fourth zone.
var vpZoneDST = func() *time.Location {
	if l, err := time.LoadLocation("America/New_York"); err == nil {
		return l
	}
	return time.FixedZone("America/New_York", -5*3600)
}()

func vpLocID(l *time.Location) int64 {
	switch l {
	case time.UTC, nil:
		return 0
	case time.Local:
		return 1
	case vpZoneE8:
		return 2
	case vpZoneDST:
		return 5
	case vpZoneLMT:
		return 6
	}
	if l.String() == "Asia/Shanghai" {
		return 3
	}
	return 4
}

func vpLocOf(id int64) *time.Location {
	switch id {
	case 0:
		return time.UTC
	case 1:
		return time.Local
	case 3:
		return vpZoneDST
	case 4:
		return vpZoneLMT
	}
	return vpZoneE8
}

func vpStubDate(y int, m time.Month, d, h, mi, s, ns int, loc *time.Location) time.Time {
	if loc == nil {
		panic("time: missing Location in call to Date")
	}
	sec := vpUF("date", int64(y), int64(m), int64(d), int64(h), int64(mi), int64(s), vpLocID(loc))
	return time.Unix(sec, int64(ns)).In(loc)
}

func vpStubAddDate(t time.Time, y, m, d int) time.Time {
	sec := vpUF("addDate", t.Unix(), vpLocID(t.Location()), int64(y), int64(m), int64(d))
	return time.Unix(sec, int64(t.Nanosecond())).In(t.Location())
}

func vpStubDateOf(t time.Time) (int, time.Month, int) {
	return vpStubYear(t), vpStubMonth(t), vpStubDay(t)
}
func vpStubClock(t time.Time) (int, int, int) { return vpStubHour(t), vpStubMinute(t), vpStubSecond(t) }
func vpStubYear(t time.Time) int              { return int(vpUF("year", t.Unix(), vpLocID(t.Location()))) }
func vpStubMonth(t time.Time) time.Month {
	return time.Month(vpUF("month", t.Unix(), vpLocID(t.Location())))
}
func vpStubDay(t time.Time) int    { return int(vpUF("day", t.Unix(), vpLocID(t.Location()))) }
func vpStubHour(t time.Time) int   { return int(vpUF("hour", t.Unix(), vpLocID(t.Location()))) }
func vpStubMinute(t time.Time) int { return int(vpUF("minute", t.Unix(), vpLocID(t.Location()))) }
func vpStubSecond(t time.Time) int { return int(vpUF("second", t.Unix(), vpLocID(t.Location()))) }
func vpStubWeekday(t time.Time) time.Weekday {
	return time.Weekday(vpUF("weekday", t.Unix(), vpLocID(t.Location())))
}

var vpLayouts = []string{"2006-01-02 15:04:05", "02/01/06", time.RFC3339, "Mon Jan _2"}

func vpStubFormat(t time.Time, layout string) string {
	lid := int64(-1)
	for i, l := range vpLayouts {
		if l == layout {
			lid = int64(i)
		}
	}
	a := vpUF("format0", t.Unix(), vpLocID(t.Location()), lid)
	b := vpUF("format1", t.Unix(), vpLocID(t.Location()), lid)
	return string([]byte{byte(a), byte(b)})
}

var vpClock struct {
	last  int64
	reads []time.Time
}

// vpStubNow: the clock returns arbitrary non-decreasing instants.
func vpStubNow() time.Time {
	sec := vpInt64("clock")
	vpAssume(sec >= vpClock.last && sec < 4000000000)
	vpClock.last = sec
	t := time.Unix(sec, 0)
	vpClock.reads = append(vpClock.reads, t)
	return t
}

// vpTimeEnv installs the environment model (engine only).
func vpTimeEnv() bool {
	if !vpReplace("time.Date", vpStubDate) {
		return false
	}
	vpReplace("(time.Time).AddDate", vpStubAddDate)
	vpReplace("(time.Time).Year", vpStubYear)
	vpReplace("(time.Time).Month", vpStubMonth)
	vpReplace("(time.Time).Day", vpStubDay)
	vpReplace("(time.Time).Hour", vpStubHour)
	vpReplace("(time.Time).Minute", vpStubMinute)
	vpReplace("(time.Time).Second", vpStubSecond)
	vpReplace("(time.Time).Weekday", vpStubWeekday)
	vpReplace("(time.Time).Date", vpStubDateOf)
	vpReplace("(time.Time).Clock", vpStubClock)
	vpReplace("(time.Time).Format", vpStubFormat)
	vpReplace("time.Now", vpStubNow)
	vpClock.last = 0
	vpClock.reads = nil
	return true
}

// independent calendar (native cross-check): days from civil, proleptic Gregorian
func vpDaysFromCivil(y, m, d int64) int64 {
	if m <= 2 {
		y--
	}
	era := y / 400
	if y < 0 {
		era = (y - 399) / 400
	}
	yoe := y - era*400
	mp := (m + 9) % 12
	doy := (153*mp+2)/5 + d - 1
	doe := yoe*365 + yoe/4 - yoe/100 + doy
	return era*146097 + doe - 719468
}

func vpRangeInt(name string, lo, hi int) int {
	v := vpInt(name)
	vpAssume(v >= lo && v <= hi)
	return v
}

// C19/date: date(y,m,d) is local midnight of that civil date with out-of-range
// months and days carried over; addDate shifts civil fields with the same rule.
func VP_C19_date() {
	env := vpTimeEnv()
	y := vpRangeInt("y", 1, 9999)
	m := vpRangeInt("m", -50, 60)
	d := vpRangeInt("d", -800, 800)
	date, ok1 := vpBuiltin("date").(func(int, int, int) (time.Time, error))
	addDate, ok2 := vpBuiltin("addDate").(func(time.Time, int, int, int) (time.Time, error))
	vpAssert("C19/date/builtins-present", ok1 && ok2)
	if !(ok1 && ok2) {
		return
	}
	got, err := date(y, m, d)
	want := time.Date(y, time.Month(m), d, 0, 0, 0, 0, time.Local)
	vpAssert("C19/date/is-local-midnight-of-the-civil-date", err == nil && got.Equal(want) && got.Location() == time.Local)
	if !env {
		// native: independent days-from-civil with month carry
		mm := int64(m) - 1
		yy := int64(y) + mm/12
		mm %= 12
		if mm < 0 {
			mm += 12
			yy--
		}
		days := vpDaysFromCivil(yy, mm+1, 1) + int64(d) - 1
		_, off := got.Zone()
		vpAssert("C19/date/independent-calendar", got.Unix()+int64(off) == days*86400)
	} else {
		vpAssert("C19/date/independent-calendar", true)
	}
	// addDate: shift triples from an arbitrary instant in either zone
	sec := vpInt64("sec")
	vpAssume(sec > -60000000000 && sec < 250000000000)
	base := time.Unix(sec, 0).In(vpLocOf(int64(vpChoice("loc", 5))))
	dy, dm, dd := vpRangeInt("dy", -100, 100), vpRangeInt("dm", -50, 50), vpRangeInt("dd", -300000, 300000)
	got2, err2 := addDate(base, dy, dm, dd)
	want2 := base.AddDate(dy, dm, dd)
	vpAssert("C19/addDate/shifts-civil-fields-with-carry", err2 == nil && got2.Equal(want2) && vpLocID(got2.Location()) == vpLocID(base.Location()))
	vpReach("C19/date/done")
}

// C19/fields: civil fields of a time in its own zone; millSecond.
func VP_C19_fields() {
	env := vpTimeEnv()
	sec := vpInt64("sec")
	vpAssume(sec > -60000000000 && sec < 250000000000)
	if vpBool("before1900") {
		vpAssume(sec < -2208988800)
	}
	ns := vpInt64("ns")
	vpAssume(ns >= 0 && ns < 1000000000)
	t := time.Unix(sec, ns).In(vpLocOf(int64(vpChoice("loc", 5))))
	intFn := func(name string) (int, bool) {
		f, ok := vpBuiltin(name).(func(time.Time) (int, error))
		if !ok {
			return 0, false
		}
		v, err := f(t)
		return v, err == nil
	}
	// independent civil fields (native cross-check)
	var cy, cm, cd, ch, cmi, cs, cw int64
	if !env {
		_, off := t.Zone()
		local := t.Unix() + int64(off)
		days := local / 86400
		rem := local % 86400
		if rem < 0 {
			rem += 86400
			days--
		}
		ch, cmi, cs = rem/3600, rem%3600/60, rem%60
		cw = ((days % 7) + 11) % 7 // 1970-01-01 was a Thursday
		// civil from days (inverse of vpDaysFromCivil)
		z := days + 719468
		era := z / 146097
		if z < 0 {
			era = (z - 146096) / 146097
		}
		doe := z - era*146097
		yoe := (doe - doe/1460 + doe/36524 - doe/146096) / 365
		doy := doe - (365*yoe + yoe/4 - yoe/100)
		mp := (5*doy + 2) / 153
		cd = doy - (153*mp+2)/5 + 1
		cm = mp + 3
		if cm > 12 {
			cm -= 12
		}
		cy = yoe + era*400
		if cm <= 2 {
			cy++
		}
	}
	check := func(label string, v int, ok bool, real int, indep int64) {
		vpAssert(label, ok && v == real)
		vpAssert(label+"/independent-calendar", env || int64(v) == indep)
	}
	switch vpChoice("fn", 8) {
	case 0:
		v, ok := intFn("year")
		check("C19/fields/year", v, ok, t.Year(), cy)
	case 1:
		v, ok := intFn("month")
		check("C19/fields/month-is-1-based", v, ok, int(t.Month()), cm)
	case 2:
		v, ok := intFn("day")
		check("C19/fields/day", v, ok, t.Day(), cd)
	case 3:
		v, ok := intFn("hour")
		check("C19/fields/hour", v, ok, t.Hour(), ch)
	case 4:
		v, ok := intFn("minute")
		check("C19/fields/minute", v, ok, t.Minute(), cmi)
	case 5:
		v, ok := intFn("second")
		check("C19/fields/second", v, ok, t.Second(), cs)
	case 6:
		v, ok := intFn("weekDay")
		check("C19/fields/weekDay-sunday-is-0", v, ok, int(t.Weekday()), cw)
	case 7:
		f, ok := vpBuiltin("millSecond").(func(time.Time) (int64, error))
		vpAssert("C19/fields/millSecond-present", ok)
		if ok {
			v, err := f(t)
			vpAssert("C19/fields/millSecond-is-unix-milliseconds", err == nil && v == sec*1000+ns/1000000)
		}
	}
	vpReach("C19/fields/done")
}

// C19/zone: useTimezone, timeFormat, now, toDay.
func VP_C19_zone() {
	env := vpTimeEnv()
	sec := vpInt64("sec")
	vpAssume(sec > -60000000000 && sec < 250000000000)
	t := time.Unix(sec, 0).In(vpLocOf(int64(vpChoice("loc", 5))))
	switch vpChoice("fn", 4) {
	case 0:
		use, ok := vpBuiltin("useTimezone").(func(time.Time, string) (time.Time, error))
		vpAssert("C19/zone/useTimezone-present", ok)
		if !ok {
			return
		}
		r, err := use(t, "Asia/Shanghai")
		vpAssert("C19/zone/known-zone-no-error", err == nil)
		if err == nil {
			vpAssert("C19/zone/instant-preserved", r.Equal(t) && r.Unix() == sec)
			vpAssert("C19/zone/zone-changed", r.Location() != nil && r.Location().String() == "Asia/Shanghai")
		}
		_, err2 := use(t, "No/Such_Zone")
		_, err2b := use(t, "No/Such_Zone")
		vpAssert("C19/zone/unknown-zone-is-error", err2 != nil && err2b != nil)
		r3, err3 := use(t, "UTC")
		vpAssert("C19/zone/utc", err3 == nil && r3.Equal(t) && r3.Location() == time.UTC)
	case 1:
		tf, ok := vpBuiltin("timeFormat").(func(time.Time, string) (string, error))
		vpAssert("C19/zone/timeFormat-present", ok)
		if !ok {
			return
		}
		layout := vpLayouts[vpChoice("layout", len(vpLayouts))]
		s, err := tf(t, layout)
		vpAssert("C19/zone/timeFormat-renders-layout", err == nil && s == t.Format(layout))
	case 2:
		now, ok := vpBuiltin("now").(func() (time.Time, error))
		vpAssert("C19/zone/now-present", ok)
		if !ok {
			return
		}
		t0 := time.Now()
		v, err := now()
		t1 := time.Now()
		vpAssert("C19/zone/now-within-bracket", err == nil && !v.Before(t0) && !v.After(t1))
	case 3:
		toDay, ok := vpBuiltin("toDay").(func() (time.Time, error))
		vpAssert("C19/zone/toDay-present", ok)
		if !ok {
			return
		}
		t0 := time.Now()
		nreads := len(vpClock.reads)
		v, err := toDay()
		t1 := time.Now()
		vpAssert("C19/zone/toDay-no-error", err == nil)
		// local midnight of the civil date of an instant read from the clock during the call
		match := false
		cands := []time.Time{t0, t1}
		if env {
			cands = vpClock.reads[nreads : len(vpClock.reads)-1]
		}
		vpAssert("C19/zone/toDay-reads-the-clock", len(cands) >= 1)
		for _, x := range cands {
			x = x.In(time.Local)
			if v.Equal(time.Date(x.Year(), x.Month(), x.Day(), 0, 0, 0, 0, time.Local)) {
				match = true
			}
		}
		vpAssert("C19/zone/toDay-is-local-midnight-of-the-call-date", match)
		vpAssert("C19/zone/toDay-location-local", v.Location() == time.Local)
	}
	vpReach("C19/zone/done")
}

func init() {
	vpHarnesses["VP_C19_pool"] = VP_C19_pool
}

// C19/pool: CONCRETE POOL through the parser and the runner with the real time
// package (no uninterpreted functions): boundary dates of the proleptic
// Gregorian calendar (year 1, leap days, month/day carry, the zero instant
// 0001-01-01T00:00:00Z as a value like any other), expectations by hand.
func VP_C19_pool() {
	pool := []struct {
		f    string
		want int
	}{
		{"year(date(1, 1, 1))", 1}, {"month(date(1, 1, 1))", 1}, {"day(date(1, 1, 1))", 1}, {"year(date(0, 13, 1))", 1}, {"day(date(1, 0, 32))", 1},
		{"year(z)", 1}, {"month(z)", 1}, {"weekDay(z)", 1}, {"hour(z)", 0}, {"year(addDate(date(1, 1, 2), 0, 0, -1))", 1},
		{"day(date(2024, 2, 30))", 1}, {"month(date(2024, 2, 30))", 3}, {"day(date(2023, 2, 29))", 1}, {"day(date(1900, 2, 29))", 1}, {"day(date(2000, 2, 29))", 29},
		{"month(date(2023, 14, 1))", 2}, {"year(date(2023, 14, 1))", 2024}, {"month(date(2024, 0, 1))", 12}, {"year(date(2024, 0, 1))", 2023}, {"day(date(2024, 3, 0))", 29},
		{"weekDay(date(2024, 2, 29))", 4}, {"weekDay(date(2000, 1, 1))", 6}, {"day(addDate(date(2024, 1, 31), 0, 1, 0))", 2}, {"month(addDate(date(2024, 1, 31), 0, 1, 0))", 3},
		{"year(addDate(date(2024, 12, 31), 0, 0, 1))", 2025}, {"day(addDate(date(2024, 3, 1), 0, 0, -1))", 29}, {"year(date(9999, 12, 31))", 9999}, {"hour(date(2024, 5, 5))", 0},
		{"millSecond(addDate(date(1970, 1, 1), 0, 0, 1)) - millSecond(date(1970, 1, 1))", 86400000},
		{"millSecond(addDate(date(2000, 1, 1), 0, 0, 200000)) - millSecond(date(2000, 1, 1)) === 200000 * 86400000 ? 1 : 0", 1},
	}
	p := pool[vpChoice("f", len(pool))]
	if !vpSymbolic() {
		vpC19DSTNative()
	}
	code, err := ParseSourceCode([]byte(p.f))
	vpAssert("C19/pool/parses", err == nil)
	if err != nil {
		return
	}
	r := NewRunner()
	r.SetThis(map[string]interface{}{"z": time.Time{}})
	v, rerr := r.Resolve(context.Background(), code.Expression)
	f, ok := v.(float64)
	vpObserve("pool", p.f, f, rerr != nil)
	vpAssert("C19/pool/civil-fields", rerr == nil && ok && f == float64(p.want))
	vpReach("C19/pool/done")
}

// vpC19DSTNative: civil-field shifts across a daylight-saving transition. The engine has no
// time-zone database, so these are decided by the native replay only (and only if the zone
// database is present there). The instants are given as data, independent of the local zone.
func vpC19DSTNative() {
	if _, err := time.LoadLocation("America/New_York"); err != nil {
		return
	}
	if _, err := time.LoadLocation("Europe/Berlin"); err != nil {
		return
	}
	data := map[string]interface{}{
		"t0": time.Date(2021, 3, 13, 0, 0, 0, 0, time.UTC),  // 19:00 EST on 12 March in New York; DST starts on 14 March
		"t1": time.Date(2021, 3, 27, 12, 0, 0, 0, time.UTC), // 13:00 CET in Berlin; DST starts on 28 March
		"t2": time.Date(2021, 11, 6, 16, 0, 0, 0, time.UTC), // 12:00 EDT in New York; DST ends on 7 November
	}
	for _, c := range []struct {
		f    string
		want float64
	}{
		{"hour(addDate(useTimezone(t0, 'America/New_York'), 0, 0, 2))", 19}, {"day(addDate(useTimezone(t0, 'America/New_York'), 0, 0, 2))", 14},
		{"hour(addDate(useTimezone(t1, 'Europe/Berlin'), 0, 0, 1))", 13}, {"hour(addDate(useTimezone(t2, 'America/New_York'), 0, 0, 1))", 12},
		{"hour(addDate(useTimezone(t2, 'America/New_York'), 0, 1, -29))", 12}, {"millSecond(useTimezone(t1, 'Europe/Berlin')) - millSecond(t1)", 0},
		{"hour(useTimezone(useTimezone(t0, 'America/New_York'), 'Europe/Berlin'))", 1},
	} {
		code, err := ParseSourceCode([]byte(c.f))
		if err != nil {
			vpNativeOnly("C19/pool/dst-civil-shift", false)
			continue
		}
		r := NewRunner()
		r.SetThis(data)
		v, rerr := r.Resolve(context.Background(), code.Expression)
		f, ok := v.(float64)
		vpNativeOnly("C19/pool/dst-civil-shift", rerr == nil && ok && f == c.want)
	}
}
