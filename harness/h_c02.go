package formula

func init() {
	vpHarnesses["VP_C02_tokens"] = VP_C02_tokens
	vpHarnesses["VP_C02_ops"] = VP_C02_ops
	vpHarnesses["VP_C02_lists"] = VP_C02_lists
	vpHarnesses["VP_C01_tokens"] = VP_C01_tokens
}

// ---------------------------------------------------------------------------
// Token streams: symbolic kinds + line-break flags; a stub scanner in the
// engine, rendered text and the real scanner natively.

type vpTokens struct {
	kinds []SyntaxKind
	lb    []bool
}

var vpTokCur *vpTokens

// vpStubScan replaces (*Scanner).Scan in the engine: token i occupies [i,i+1).
// The token index lives in s.pos, which the parser's own speculation
// (scannerSpeculationHelper) saves and restores.
func vpStubScan(s *Scanner) SyntaxKind {
	t := vpTokCur
	i := s.pos
	n := len(t.kinds)
	s.startPos = i
	s.tokenFlags = TF_None
	if i >= n {
		s.tokenPos = n
		s.pos = n
		s.token = SK_EndOfFile
		return s.token
	}
	s.tokenPos = i
	s.pos = i + 1
	k := t.kinds[i]
	if t.lb[i] {
		s.tokenFlags |= TF_PrecedingLineBreak
	}
	s.token = k
	s.tokenValue = vpTokValue(k)
	if k == SK_Unknown {
		s.error(M_Invalid_character)
	}
	return s.token
}

func vpTokValue(k SyntaxKind) string {
	switch {
	case k == SK_Identifier:
		return "a"
	case k == SK_NumberLiteral:
		return "1"
	case k == SK_StringLiteral:
		return "s"
	case k.IsKeyword():
		return tokens[k]
	}
	return ""
}

var vpTokText = map[SyntaxKind]string{
	SK_Unknown: "#", SK_NumberLiteral: "1", SK_StringLiteral: "'s'", SK_OpenParen: "(", SK_CloseParen: ")", SK_OpenBracket: "[", SK_CloseBracket: "]",
	SK_Dot: ".", SK_DotDotDot: "...", SK_Comma: ",", SK_LessThan: "<", SK_GreaterThan: ">", SK_LessThanEquals: "<=", SK_GreaterThanEquals: ">=",
	SK_EqualsEquals: "==", SK_EqualsEqualsEquals: "===", SK_ExclamationEquals: "!=", SK_ExclamationEqualsEquals: "!==", SK_Plus: "+", SK_Minus: "-",
	SK_Asterisk: "*", SK_Slash: "/", SK_Percent: "%", SK_Ampersand: "&", SK_Bar: "|", SK_Caret: "^", SK_AmpersandAmpersand: "&&", SK_BarBar: "||",
	SK_QuestionQuestion: "??", SK_Exclamation: "!", SK_ExclamationDot: "!.", SK_ExclamationExclamation: "!!", SK_Tilde: "~", SK_Question: "?", SK_Colon: ":",
	SK_Equals: "=", SK_Identifier: "a", SK_TrueKeyword: "true", SK_FalseKeyword: "false", SK_NullKeyword: "null", SK_ThisKeyword: "this", SK_CtxKeyword: "ctx", SK_TypeofKeyword: "typeof",
}

// vpRenderTokens renders the token sequence as text (natively): tokens are
// separated by one space, or by a newline when the line-break flag is set.
func vpRenderTokens(t *vpTokens) []byte {
	var out []byte
	for i, k := range t.kinds {
		if t.lb[i] {
			out = append(out, '\n')
		} else if i > 0 {
			out = append(out, ' ')
		}
		out = append(out, vpTokText[k]...)
	}
	return out
}

// vpParseTokens parses the token stream with the implementation: through the
// stub scanner in the engine, through rendered text natively.  With cut, the
// first diagnostic ends the parse with an error (sound for accept/reject: an
// error is returned iff a diagnostic survives or a panic occurs).
func vpParseTokens(t *vpTokens, cut bool) (*SourceCode, error) {
	vpTokCur = t
	if vpReplace("(*github.com/aundis/formula.Scanner).Scan", vpStubScan) {
		if cut {
			vpReplace("(*github.com/aundis/formula.Parser).errorAtPosition", vpCutDiag)
		}
		return ParseSourceCode(make([]byte, len(t.kinds)))
	}
	return ParseSourceCode(vpRenderTokens(t))
}

func vpCutDiag(p *Parser, start int, length int, message *DiagnosticMessage, args ...interface{}) {
	panic("vp: first diagnostic")
}

// vpSymTokens draws k symbolic tokens from the scanner image.
func vpSymTokens(k int) *vpTokens {
	t := &vpTokens{kinds: make([]SyntaxKind, k), lb: make([]bool, k)}
	for i := 0; i < k; i++ {
		kd := SyntaxKind(vpInt("k"))
		vpAssume(kd >= SK_Unknown && kd < SK_Count && kd != SK_EndOfFile)
		vpAssume(!(kd >= SK_PlusEquals && kd <= SK_CaretEquals))
		t.kinds[i] = kd
		t.lb[i] = vpBool("lb")
	}
	return t
}

// ---------------------------------------------------------------------------
// Reference parser written from the property statement.

const (
	vnIdent = iota
	vnLiteral
	vnPrefix
	vnTypeof
	vnBinary
	vnCond
	vnParen
	vnArray
	vnSelector
	vnCall
)

type vpNode struct {
	kind   int
	op     SyntaxKind // operator / literal kind
	kids   []*vpNode
	assert bool // selector via !.
	spread bool // call with ...
	name   SyntaxKind
}

type vpRef struct {
	t   *vpTokens
	pos int
	bad bool
}

func (r *vpRef) tok() SyntaxKind {
	if r.pos >= len(r.t.kinds) {
		return SK_EndOfFile
	}
	return r.t.kinds[r.pos]
}

func (r *vpRef) lbHere() bool {
	if r.pos >= len(r.t.kinds) {
		return false
	}
	return r.t.lb[r.pos]
}

func vpBinPrec(k SyntaxKind) int {
	switch k {
	case SK_BarBar, SK_QuestionQuestion:
		return 1
	case SK_AmpersandAmpersand:
		return 2
	case SK_Bar:
		return 3
	case SK_Caret:
		return 4
	case SK_Ampersand:
		return 5
	case SK_EqualsEquals, SK_ExclamationEquals, SK_EqualsEqualsEquals, SK_ExclamationEqualsEquals:
		return 6
	case SK_LessThan, SK_GreaterThan, SK_LessThanEquals, SK_GreaterThanEquals:
		return 7
	case SK_Plus, SK_Minus:
		return 9
	case SK_Asterisk, SK_Slash, SK_Percent:
		return 10
	}
	return 0
}

func vpIsPrefixOp(k SyntaxKind) bool {
	return k == SK_Plus || k == SK_Minus || k == SK_Exclamation || k == SK_ExclamationExclamation || k == SK_Tilde
}

func vpIsLiteralTok(k SyntaxKind) bool {
	return k == SK_NumberLiteral || k == SK_StringLiteral || k == SK_NullKeyword || k == SK_TrueKeyword || k == SK_FalseKeyword || k == SK_ThisKeyword || k == SK_CtxKeyword
}

// Expr := Assign (',' Assign)*
func (r *vpRef) expr() *vpNode {
	e := r.assign()
	for !r.bad && r.tok() == SK_Comma {
		r.pos++
		e = &vpNode{kind: vnBinary, op: SK_Comma, kids: []*vpNode{e, r.assign()}}
	}
	return e
}

// Assign := Binary [ '=' Assign | '?' Assign ':' Assign ]
func (r *vpRef) assign() *vpNode {
	e := r.binary(0)
	if r.bad {
		return e
	}
	switch r.tok() {
	case SK_Equals:
		r.pos++
		return &vpNode{kind: vnBinary, op: SK_Equals, kids: []*vpNode{e, r.assign()}}
	case SK_Question:
		r.pos++
		a := r.assign()
		if r.bad {
			return e
		}
		if r.tok() != SK_Colon {
			r.bad = true
			return e
		}
		r.pos++
		b := r.assign()
		return &vpNode{kind: vnCond, kids: []*vpNode{e, a, b}}
	}
	return e
}

// Binary(p): operators of precedence > p, left associative.
func (r *vpRef) binary(p int) *vpNode {
	left := r.unary()
	for !r.bad {
		op := r.tok()
		q := vpBinPrec(op)
		if q == 0 || q <= p {
			break
		}
		r.pos++
		right := r.binary(q)
		left = &vpNode{kind: vnBinary, op: op, kids: []*vpNode{left, right}}
	}
	return left
}

func (r *vpRef) unary() *vpNode {
	if r.bad {
		return nil
	}
	k := r.tok()
	if vpIsPrefixOp(k) {
		r.pos++
		return &vpNode{kind: vnPrefix, op: k, kids: []*vpNode{r.unary()}}
	}
	if k == SK_TypeofKeyword {
		r.pos++
		return &vpNode{kind: vnTypeof, kids: []*vpNode{r.unary()}}
	}
	return r.postfix()
}

func (r *vpRef) postfix() *vpNode {
	e := r.primary()
	for !r.bad {
		k := r.tok()
		if r.lbHere() {
			break // member access / calls must start on the line of their target
		}
		if k == SK_Dot || k == SK_ExclamationDot {
			r.pos++
			nk := r.tok()
			if !(nk == SK_Identifier || nk.IsKeyword()) {
				r.bad = true
				return e
			}
			r.pos++
			e = &vpNode{kind: vnSelector, kids: []*vpNode{e}, assert: k == SK_ExclamationDot, name: nk}
			continue
		}
		if k == SK_OpenParen {
			r.pos++
			args, spread := r.list(SK_CloseParen, true)
			if r.bad {
				return e
			}
			e = &vpNode{kind: vnCall, kids: append([]*vpNode{e}, args...), spread: spread}
			continue
		}
		break
	}
	return e
}

// list parses comma separated Assign elements up to the closing token; no
// trailing comma; an optional "..." before ')' when allowSpread.
func (r *vpRef) list(closeTok SyntaxKind, allowSpread bool) ([]*vpNode, bool) {
	var items []*vpNode
	spread := false
	if r.tok() != closeTok && !(allowSpread && r.tok() == SK_DotDotDot) {
		for {
			items = append(items, r.assign())
			if r.bad {
				return nil, false
			}
			if r.tok() == SK_Comma {
				r.pos++
				continue
			}
			break
		}
	}
	if allowSpread && r.tok() == SK_DotDotDot {
		r.pos++
		spread = true
	}
	if r.tok() != closeTok {
		r.bad = true
		return nil, false
	}
	r.pos++
	return items, spread
}

func (r *vpRef) primary() *vpNode {
	if r.bad {
		return nil
	}
	k := r.tok()
	switch {
	case vpIsLiteralTok(k):
		r.pos++
		return &vpNode{kind: vnLiteral, op: k}
	case k == SK_Identifier:
		r.pos++
		return &vpNode{kind: vnIdent}
	case k == SK_OpenParen:
		r.pos++
		e := r.expr()
		if r.bad {
			return nil
		}
		if r.tok() != SK_CloseParen {
			r.bad = true
			return nil
		}
		r.pos++
		return &vpNode{kind: vnParen, kids: []*vpNode{e}}
	case k == SK_OpenBracket:
		r.pos++
		items, _ := r.list(SK_CloseBracket, false)
		if r.bad {
			return nil
		}
		return &vpNode{kind: vnArray, kids: items}
	}
	r.bad = true
	return nil
}

// vpRefParse: (tree, accepted).
func vpRefParse(t *vpTokens) (*vpNode, bool) {
	r := &vpRef{t: t}
	e := r.expr()
	if r.bad || r.pos != len(t.kinds) {
		return nil, false
	}
	return e, true
}

// vpSameTree compares the implementation's tree with the reference tree.
func vpSameTree(e Expression, n *vpNode) bool {
	if n == nil || e == nil {
		return false
	}
	switch x := e.(type) {
	case *Identifier:
		return n.kind == vnIdent
	case *LiteralExpression:
		return n.kind == vnLiteral && x.Token == n.op
	case *PrefixUnaryExpression:
		return n.kind == vnPrefix && x.Operator != nil && x.Operator.Token == n.op && vpSameTree(x.Operand, n.kids[0])
	case *TypeOfExpression:
		return n.kind == vnTypeof && vpSameTree(x.Expression, n.kids[0])
	case *BinaryExpression:
		return n.kind == vnBinary && x.Operator != nil && x.Operator.Token == n.op && vpSameTree(x.Left, n.kids[0]) && vpSameTree(x.Right, n.kids[1])
	case *ConditionalExpression:
		return n.kind == vnCond && vpSameTree(x.Condition, n.kids[0]) && vpSameTree(x.WhenTrue, n.kids[1]) && vpSameTree(x.WhenFalse, n.kids[2])
	case *ParenthesizedExpression:
		return n.kind == vnParen && vpSameTree(x.Expression, n.kids[0])
	case *ArrayLiteralExpression:
		if n.kind != vnArray || x.Elements.Len() != len(n.kids) {
			return false
		}
		for i := range n.kids {
			if !vpSameTree(x.Elements.At(i), n.kids[i]) {
				return false
			}
		}
		return true
	case *SelectorExpression:
		return n.kind == vnSelector && x.Assert == n.assert && x.Name != nil && x.Name.OriginalToken == n.name && vpSameTree(x.Expression, n.kids[0])
	case *CallExpression:
		if n.kind != vnCall || x.Arguments.Len() != len(n.kids)-1 || (x.DotDotDotToken != nil) != n.spread {
			return false
		}
		if !vpSameTree(x.Expression, n.kids[0]) {
			return false
		}
		for i := 1; i < len(n.kids); i++ {
			if !vpSameTree(x.Arguments.At(i-1), n.kids[i]) {
				return false
			}
		}
		return true
	}
	return false
}

// vpDontCare: token sequences on which the statement is silent.
func vpDontCare(t *vpTokens) bool {
	for i, k := range t.kinds {
		// whether a name after . / !. may start on the next line
		if i > 0 && (t.kinds[i-1] == SK_Dot || t.kinds[i-1] == SK_ExclamationDot) && t.lb[i] {
			return true
		}
		// f(...) with no argument before the spread
		if k == SK_DotDotDot && i > 0 && t.kinds[i-1] == SK_OpenParen {
			return true
		}
	}
	return false
}

func vpCompareParsers(t *vpTokens, cut bool, prefix string) {
	want, acc := vpRefParse(t)
	if vpDontCare(t) {
		// the statement leaves open whether these are accepted; but a sequence that is not
		// derivable even when they are allowed must still be rejected
		if acc {
			return
		}
		_, err := vpParseTokens(t, cut)
		vpReach(prefix + "/underivable")
		vpAssert(prefix+"/underivable-is-rejected", err != nil)
		return
	}
	src, err := vpParseTokens(t, cut)
	vpObserve("verdict", acc, err == nil)
	if acc {
		vpReach(prefix + "/derivable")
		vpAssert(prefix+"/derivable-is-accepted", err == nil)
		if err == nil {
			vpAssert(prefix+"/tree-follows-grammar", src != nil && vpSameTree(src.Expression, want))
		}
	} else {
		vpReach(prefix + "/underivable")
		vpAssert(prefix+"/underivable-is-rejected", err != nil)
	}
}

// C02/tokens (layer A): every sequence of exactly K tokens over the full alphabet.
func VP_C02_tokens() {
	K := vpParam("K")
	t := vpSymTokens(K)
	if K > 0 {
		vpAssume(!t.lb[0] || true)
	}
	vpCompareParsers(t, true, "C02/tokens")
}

var vpBinaryOps = []SyntaxKind{SK_BarBar, SK_QuestionQuestion, SK_AmpersandAmpersand, SK_Bar, SK_Caret, SK_Ampersand, SK_EqualsEquals, SK_ExclamationEquals,
	SK_EqualsEqualsEquals, SK_ExclamationEqualsEquals, SK_LessThan, SK_GreaterThan, SK_LessThanEquals, SK_GreaterThanEquals, SK_Plus, SK_Minus, SK_Asterisk, SK_Slash, SK_Percent,
	SK_Comma, SK_Equals, SK_Question, SK_Colon}

func vpIsOpTok(k SyntaxKind) bool {
	for _, o := range vpBinaryOps {
		if k == o {
			return true
		}
	}
	return false
}

// C02/ops (layers B, C): a op1 b op2 c op3 d with symbolic operators over all
// binary operators, ',', '=', '?', ':', optionally with prefix operators and
// postfix member access on the operands.
func VP_C02_ops() {
	N := vpParam("N") // number of operators
	P := vpParam("P") // 1: one operand (chosen symbolically) carries prefix operators / typeof and a postfix member access or call
	t := &vpTokens{}
	deco := -1
	if P == 1 {
		deco = vpChoice("deco", N+1)
	}
	cur := 0
	add := func(k SyntaxKind) {
		t.kinds = append(t.kinds, k)
		t.lb = append(t.lb, false)
	}
	operand := func() {
		mine := cur == deco
		cur++
		if mine {
			switch vpChoice("pre", 4) {
			case 1:
				pk := SyntaxKind(vpInt("pk"))
				vpAssume(vpIsPrefixOp(pk))
				add(pk)
			case 2:
				add(SK_TypeofKeyword)
			case 3:
				pk := SyntaxKind(vpInt("pk"))
				vpAssume(vpIsPrefixOp(pk))
				add(pk)
				add(SK_TypeofKeyword)
			}
		}
		add(SK_Identifier)
		if mine {
			switch vpChoice("post", 3) {
			case 1:
				add(SK_Dot)
				add(SK_Identifier)
			case 2:
				add(SK_OpenParen)
				add(SK_CloseParen)
			}
		}
	}
	operand()
	for i := 0; i < N; i++ {
		op := SyntaxKind(vpInt("op"))
		if vpParam("ALPHA") == 1 {
			// associativity-sensitive sub-alphabet: longer chains at the same cost
			vpAssume(op == SK_Question || op == SK_Colon || op == SK_Equals || op == SK_Comma || op == SK_Plus || op == SK_BarBar || op == SK_Asterisk)
		} else {
			vpAssume(vpIsOpTok(op))
		}
		add(op)
		operand()
	}
	vpCompareParsers(t, true, "C02/ops")
}

// C02/lists (layer D): [ t1..tk ] and a( t1..tk ) with symbolic ti.
func VP_C02_lists() {
	K := vpParam("K")
	inner := vpSymTokens(K)
	call := vpBool("call")
	t := &vpTokens{}
	if call {
		t.kinds = append(t.kinds, SK_Identifier, SK_OpenParen)
		t.lb = append(t.lb, false, false)
	} else {
		t.kinds = append(t.kinds, SK_OpenBracket)
		t.lb = append(t.lb, false)
	}
	t.kinds = append(t.kinds, inner.kinds...)
	t.lb = append(t.lb, inner.lb...)
	if call {
		t.kinds = append(t.kinds, SK_CloseParen)
	} else {
		t.kinds = append(t.kinds, SK_CloseBracket)
	}
	t.lb = append(t.lb, vpBool("lbclose"))
	vpCompareParsers(t, true, "C02/lists")
}

// C01/tokens: the parser over a symbolic token stream with full error
// recovery (no cut): a complete tree xor an error, no panic, termination.
func VP_C01_tokens() {
	K := vpParam("K")
	t := vpSymTokens(K)
	src, err := vpParseTokens(t, false)
	if err != nil {
		vpReach("C01/tokens/rejected")
		return
	}
	vpReach("C01/tokens/accepted")
	vpAssert("C01/tokens/tree-present", src != nil && src.Expression != nil)
	if src == nil {
		return
	}
	vpAssert("C01/tokens/no-diagnostics-without-error", len(src.Diagnostics) == 0)
	vpAssert("C01/tokens/complete", vpComplete(src.Expression, 0))
	vpAssert("C01/tokens/eof-token", src.EndOfFileToken != nil && src.EndOfFileToken.Token == SK_EndOfFile)
}
