package formula

import (
	"context"
	"sync"
)

func init() {
	vpHarnesses["VP_C09_shared"] = VP_C09_shared
}

type vpC09Result struct {
	val    interface{}
	err    string
	fields int
	perr   string
	diag   string
}

// vpC09Ops: what one goroutine does with the shared tree: evaluate it with its
// own runner and data, collect its fields, parse another text and format an
// error for another source.
func vpC09Ops(tree Expression, other []byte, withData bool) vpC09Result {
	r := NewRunner()
	if withData {
		r.SetThis(vpC09Data())
	}
	return vpC09OpsOn(r, tree, other)
}

func vpC09Data() map[string]interface{} {
	return map[string]interface{}{"x": 2, "y": nil, "f": func(a, b interface{}) (int, error) { return 5, nil }, "st": vpPerson{Name: "n", Age: 3}, "tg": vpTagged{ID: 4}}
}

func vpC09OpsOn(r *Runner, tree Expression, other []byte) vpC09Result {
	var res vpC09Result
	v, err := r.Resolve(context.Background(), tree)
	res.val, res.err = v, vpErrText2(err)
	fs, ferr := ResolveReferenceFields(&SourceCode{Expression: tree})
	if ferr == nil {
		res.fields = len(fs)
	} else {
		res.fields = -1
	}
	src, perr := ParseSourceCode(other)
	res.perr = vpErrText2(perr)
	if src != nil && len(src.Diagnostics) > 0 {
		res.diag = FormatDiagnostic(src, src.Diagnostics[0])
	}
	return res
}

func vpC09Same(a, b vpC09Result) bool {
	return a.err == b.err && a.fields == b.fields && a.perr == b.perr && a.diag == b.diag && vpDeepEq(a.val, b.val)
}

// C09/shared: the operations goroutines perform concurrently on one parsed
// formula write no cell shared between them (the tree, the package state), so
// by the Go memory model they are race free and equal their sequential results.
// Natively the same operations run in G goroutines (under the race detector).
func VP_C09_shared() {
	N, D := vpParam("N"), vpParam("D")
	var tree Expression
	if N == 0 {
		// pool of shared formulas whose builtins touch library state (patterns, rounding)
		text := []string{"[regexp('a', 'a'), regexp('b', 'b+'), regexp('ab', 'c')]", "[round(2.5), 7 / 2, toString(1.50)]", "x > 1 ? lpad('a', '0', 3) : regexp('(', '(')", "[st.Name, st.Age, tg.ID, st.Name]", "(st).Name + ((tg)).ID", "[roundBank(2.5), round(2.5), roundBank(3.5), ceil(1.0), floor(-1.0)]",
			// error paths: non-null assertion on a null member chain, a call of a missing name, a failing builtin
			"y.a!.b", "y!.k", "(y.a)!.b + 1", "[x, y.a.b!.c.d]", "nofn(x)", "left('abc', -1)", "x.k!.j"}[vpChoice("pool", 13)]
		code, err := ParseSourceCode([]byte(text))
		if err != nil {
			vpAssert("C09/shared/pool-parses", false)
			return
		}
		tree = code.Expression
	} else {
		budget := N
		prog := vpGenProg(&budget, D)
		tree = prog.ast()
	}
	// the text parsed concurrently by the other goroutine: a small pool (its byte-level
	// behaviour is C08/parse's subject; multiplying both spaces would not add coverage)
	other := []byte([]string{"1 +", "a.b(", "'x\r\n", "ok + 1", "1_000 + 2_0", "[1e1_0, 1_1.5_0, 'a\\x41']"}[vpChoice("o", 6)])
	// each goroutine has its own runner; with its own data map, or without one (locals then live in the runner's own map)
	withData := vpBool("withData")
	vpFreezeGlobals()
	vpFreeze("shared tree", tree)
	// natively the goroutines run FIRST (a sequential warm-up would hide lazily initialised shared state)
	const G = 8
	results := make([]vpC09Result, G)
	if !vpSymbolic() {
		var wg sync.WaitGroup
		start := make(chan struct{}) // barrier: the first operations of all goroutines overlap
		for g := 0; g < G; g++ {
			wg.Add(1)
			go func(g int) {
				defer wg.Done()
				<-start
				for it := 0; it < 20; it++ {
					results[g] = vpC09Ops(tree, other, withData)
				}
			}(g)
		}
		close(start)
		wg.Wait()
	}
	seq := vpC09Ops(tree, other, withData)
	vpAssert("C09/shared/no-shared-write", vpWrites() == 0)
	again := vpC09Ops(tree, other, withData)
	vpAssert("C09/shared/repeatable", vpC09Same(seq, again))
	same := true
	if !vpSymbolic() {
		for g := 0; g < G; g++ {
			if !vpC09Same(seq, results[g]) {
				same = false
			}
		}
	}
	// in the engine the concurrent part is implied by the frame condition above
	vpAssert("C09/shared/concurrent-equals-sequential", same)
	vpReach("C09/shared/done")
}
