package formula

import (
	"context"
	"strings"

	"github.com/ericlagergren/decimal"
)

func init() {
	vpHarnesses["VP_C10_fields"] = VP_C10_fields
	vpHarnesses["VP_C10_text"] = VP_C10_text
}

// C10/text: formulas parsed from text (so that source positions exist), with
// asserting member access and spacing; the reported fields are compared with
// hand-written sets.
func VP_C10_text() {
	pool := []struct {
		text string
		want []string
		nl   []string
	}{
		{"person!.name + person.name", []string{"person.name"}, []string{"person.name"}},
		{"a . b + a!.b.c", []string{"a.b", "a.b.c"}, []string{"a.b", "a.b.c"}},
		{"($u = user, $u.name)", []string{"user", "$u.name"}, []string{"user"}},
		{"f(x!.y, [z . w])", []string{"x.y", "z.w"}, []string{"x.y", "z.w"}},
		{"typeof o!.p === 'string' ? o.p : q", []string{"o.p", "q"}, []string{"o.p", "q"}},
		{"($p = person, $p.name + $p.address.city + suffix)", []string{"person", "$p.name", "$p.address.city", "suffix"}, []string{"person", "suffix"}},
		{"$row.total > limit ? $row.total : limit", []string{"$row.total", "limit"}, []string{"limit"}},
		{"price * qty", []string{"price", "qty"}, []string{"price", "qty"}},
		{"year + 1", []string{"year"}, []string{"year"}},
		{"date.year > 2000 ? a : b", []string{"date.year", "a", "b"}, []string{"date.year", "a", "b"}},
		{"[min, x.min, len]", []string{"min", "x.min", "len"}, []string{"min", "x.min", "len"}},
		{"max(max, left.right)", []string{"max", "left.right"}, []string{"max", "left.right"}},
	}
	// a long formula: a 200-term sum (the leftmost operands sit deepest in the tree) and a deep parenthesis nest
	{
		var names []string
		text := ""
		for i := 0; i < 200; i++ {
			n := "f" + string([]byte{byte('0' + i/100), byte('0' + i/10%10), byte('0' + i%10)})
			names = append(names, n)
			if i > 0 {
				text += " + "
			}
			text += n
		}
		pool = append(pool, struct {
			text string
			want []string
			nl   []string
		}{text, names, names})
		deep := string(vpRepeat("", "(", "deep.est"+string(vpRepeat("", ")", "", 150)), 150)) + " + shallow"
		pool = append(pool, struct {
			text string
			want []string
			nl   []string
		}{deep, []string{"deep.est", "shallow"}, []string{"deep.est", "shallow"}})
	}
	p := pool[vpChoice("f", len(pool))]
	code, err := ParseSourceCode([]byte(p.text))
	vpAssert("C10/text/parses", err == nil)
	if err != nil {
		return
	}
	// history: another analysis (refused part-way, or successful) ran before; the result must not depend on it
	switch vpChoice("pre", 4) {
	case 1:
		if c0, perr := ParseSourceCode([]byte("leaked + other.path + sum(x).total")); perr == nil {
			_, e0 := ResolveReferenceFields(c0)
			_, e0n := ResolveReferenceFieldsNotLocal(c0)
			vpAssert("C10/text/member-access-on-call-refused", e0 != nil && e0n != nil)
		}
	case 2:
		if c0, perr := ParseSourceCode([]byte("earlier.one + $loc + two")); perr == nil {
			ResolveReferenceFields(c0)
			ResolveReferenceFieldsNotLocal(c0)
		}
	case 3:
		if c0, perr := ParseSourceCode([]byte("[stale, (1+2).k]")); perr == nil {
			ResolveReferenceFieldsNotLocal(c0)
		}
	}
	got, e1 := ResolveReferenceFields(code)
	gotNL, e2 := ResolveReferenceFieldsNotLocal(code)
	vpAssert("C10/text/no-error", e1 == nil && e2 == nil)
	vpAssert("C10/text/exact-set", vpSameSetModulo(got, p.want, []string{"$u", "$p"}) && vpNoDup(got))
	vpAssert("C10/text/not-local-variant", vpSameSetModulo(gotNL, p.nl, nil) && vpNoDup(gotNL))
	vpReach("C10/text/done")
}

const (
	fIdent = iota
	fPath2
	fPath3
	fLit
	fThis
	fBinary
	fAssign
	fCond
	fArray
	fParen
	fTypeof
	fPrefix
	fCall
	fCallSpread
	fCalleePath
	fBadMember
	fKinds
)

type vpFExpr struct {
	kind  int
	names []string // identifier / path segments
	kids  []*vpFExpr
}

// vpFNames: identifier pool; names[0] starts with a symbolic byte that is
// either '$' or 'q' (so local-vs-field is a solver question).
func vpFNamePool() []string {
	c := vpByte("first")
	vpAssume(c == '$' || c == 'q')
	c2 := vpByte("mid")
	vpAssume(c2 == '$' || c2 == 'x')
	// names[0]: symbolic first byte ('$' => a local); names[4]: symbolic middle byte (never a local)
	return []string{string([]byte{c, 'v'}), "a", "b", "$l", string([]byte{'p', c2, 'u'})}
}

func vpGenF(pool []string, budget *int, depth int) *vpFExpr {
	*budget--
	max := fKinds
	if *budget <= 0 || depth <= 0 {
		max = fBinary
	}
	k := vpChoice("f", max)
	e := &vpFExpr{kind: k}
	switch k {
	case fIdent:
		e.names = []string{pool[vpChoice("n", len(pool))]}
	case fPath2:
		e.names = []string{pool[vpChoice("n", len(pool))], "b"}
	case fPath3:
		e.names = []string{"a", "b", "c"}
	case fLit, fThis:
	case fBinary:
		e.kids = []*vpFExpr{vpGenF(pool, budget, depth-1), vpGenF(pool, budget, depth-1)}
	case fAssign:
		e.names = []string{"$l"}
		e.kids = []*vpFExpr{vpGenF(pool, budget, depth-1)}
	case fCond:
		e.kids = []*vpFExpr{vpGenF(pool, budget, depth-1), vpGenF(pool, budget, depth-1), vpGenF(pool, budget, depth-1)}
	case fArray:
		e.kids = []*vpFExpr{vpGenF(pool, budget, depth-1), vpGenF(pool, budget, depth-1)}
	case fParen, fTypeof, fPrefix:
		e.kids = []*vpFExpr{vpGenF(pool, budget, depth-1)}
	case fCall:
		e.names = []string{"g"}
		e.kids = []*vpFExpr{vpGenF(pool, budget, depth-1)}
	case fCallSpread:
		e.names = []string{"gv"}
		e.kids = []*vpFExpr{vpGenF(pool, budget, depth-1)}
	case fCalleePath:
		e.names = []string{"o", "m"}
		e.kids = []*vpFExpr{vpGenF(pool, budget, depth-1)}
	case fBadMember:
		e.kids = []*vpFExpr{vpGenF(pool, budget, depth-1)}
	}
	return e
}

func vpPathExpr(names []string) Expression {
	var x Expression = vpId(names[0])
	for _, n := range names[1:] {
		x = &SelectorExpression{Expression: x, Name: vpId(n)}
	}
	return x
}

func (e *vpFExpr) ast() Expression {
	switch e.kind {
	case fIdent, fPath2, fPath3:
		return vpPathExpr(e.names)
	case fLit:
		return vpNumLit(1)
	case fThis:
		return vpLit(SK_ThisKeyword, "this")
	case fBinary:
		return vpBin(SK_Plus, e.kids[0].ast(), e.kids[1].ast())
	case fAssign:
		return vpBin(SK_Equals, vpId(e.names[0]), e.kids[0].ast())
	case fCond:
		return &ConditionalExpression{Condition: e.kids[0].ast(), QuestionTok: &TokenNode{Token: SK_Question}, WhenTrue: e.kids[1].ast(), ColonTok: &TokenNode{Token: SK_Colon}, WhenFalse: e.kids[2].ast()}
	case fArray:
		return &ArrayLiteralExpression{Elements: vpList(e.kids[0].ast(), e.kids[1].ast())}
	case fParen:
		return &ParenthesizedExpression{Expression: e.kids[0].ast()}
	case fTypeof:
		return &TypeOfExpression{Expression: e.kids[0].ast()}
	case fPrefix:
		return &PrefixUnaryExpression{Operator: &TokenNode{Token: SK_Minus}, Operand: e.kids[0].ast()}
	case fCall:
		return &CallExpression{Expression: vpId("g"), Arguments: vpList(e.kids[0].ast())}
	case fCallSpread:
		return &CallExpression{Expression: vpId("gv"), Arguments: vpList(e.kids[0].ast()), DotDotDotToken: &TokenNode{Token: SK_DotDotDot}}
	case fCalleePath:
		return &CallExpression{Expression: vpPathExpr(e.names), Arguments: vpList(e.kids[0].ast())}
	case fBadMember:
		return &SelectorExpression{Expression: &ParenthesizedExpression{Expression: e.kids[0].ast()}, Name: vpId("k")}
	}
	return nil
}

// vpFCollect: independent walker - the bare names and maximal dotted paths read
// as values (not in callee position); bad=true if member access is applied to
// something other than a name or path; usesThis for the sufficiency clause.
type vpFInfo struct {
	fields   []string
	targets  []string // assignment targets (written, not read): don't-care for the listing
	called   []string
	bad      bool
	usesThis bool
}

func (e *vpFExpr) collect(info *vpFInfo) {
	switch e.kind {
	case fIdent, fPath2, fPath3:
		info.fields = append(info.fields, strings.Join(e.names, "."))
	case fThis:
		info.usesThis = true
	case fAssign:
		info.targets = append(info.targets, e.names[0])
	case fCall, fCallSpread, fCalleePath:
		info.called = append(info.called, e.names[0])
	case fBadMember:
		info.bad = true
	}
	for _, k := range e.kids {
		k.collect(info)
	}
}

func vpContains(set []string, s string) bool {
	for _, x := range set {
		if x == s {
			return true
		}
	}
	return false
}

func vpDistinct(xs []string) []string {
	var out []string
	for _, x := range xs {
		if !vpContains(out, x) {
			out = append(out, x)
		}
	}
	return out
}

// vpSameSetModulo: got == want as sets, where members of optional may or may not appear.
func vpSameSetModulo(got, want, optional []string) bool {
	for _, w := range want {
		if !vpContains(got, w) {
			return false
		}
	}
	for _, g := range got {
		if !vpContains(want, g) && !vpContains(optional, g) {
			return false
		}
	}
	return true
}

func vpNoDup(xs []string) bool {
	for i := range xs {
		for j := i + 1; j < len(xs); j++ {
			if xs[i] == xs[j] {
				return false
			}
		}
	}
	return true
}

func vpDeepEq(a, b interface{}) bool {
	switch x := a.(type) {
	case nil:
		return b == nil
	case float64:
		y, ok := b.(float64)
		return ok && (x == y || (x != x && y != y))
	case *decimal.Big:
		y, ok := b.(*decimal.Big)
		return ok && x != nil && y != nil && x.Cmp(y) == 0
	case string:
		y, ok := b.(string)
		return ok && x == y
	case bool:
		y, ok := b.(bool)
		return ok && x == y
	case []interface{}:
		y, ok := b.([]interface{})
		if !ok || len(x) != len(y) {
			return false
		}
		for i := range x {
			if !vpDeepEq(x[i], y[i]) {
				return false
			}
		}
		return true
	case map[string]interface{}:
		y, ok := b.(map[string]interface{})
		return ok && len(x) == len(y)
	}
	return false
}

// C10/fields: referenced-field analysis is exact and sufficient.
func VP_C10_fields() {
	N, D := vpParam("N"), vpParam("D")
	pool := vpFNamePool()
	budget := N
	e := vpGenF(pool, &budget, D)
	src := &SourceCode{Expression: e.ast()}
	info := &vpFInfo{}
	e.collect(info)
	got, err := ResolveReferenceFields(src)
	gotNL, errNL := ResolveReferenceFieldsNotLocal(src)
	vpObserve("analysis", len(got), err != nil)
	if info.bad {
		vpAssert("C10/fields/refuses-member-access-on-non-path", err != nil && errNL != nil)
		vpReach("C10/fields/refused")
		return
	}
	if info.usesThis {
		// member access on `this` is not a name or path; a bare `this` is fine. Only judge formulas without it.
		vpReach("C10/fields/uses-this")
		return
	}
	vpAssert("C10/fields/no-error", err == nil && errNL == nil)
	if err != nil || errNL != nil {
		return
	}
	want := vpDistinct(info.fields)
	vpAssert("C10/fields/exact-set", vpSameSetModulo(got, want, info.targets))
	vpAssert("C10/fields/no-duplicates", vpNoDup(got) && vpNoDup(gotNL))
	var wantNL, optNL []string
	for _, f := range want {
		if !strings.HasPrefix(f, "$") {
			wantNL = append(wantNL, f)
		}
	}
	for _, f := range info.targets {
		if !strings.HasPrefix(f, "$") {
			optNL = append(optNL, f)
		}
	}
	vpAssert("C10/fields/not-local-variant", vpSameSetModulo(gotNL, wantNL, optNL))
	for _, g := range gotNL {
		vpAssert("C10/fields/not-local-has-no-dollar", !strings.HasPrefix(g, "$"))
	}
	// sufficiency: the data map restricted to the top-level names of the reported
	// fields and the called names gives the same result
	full := func() map[string]interface{} {
		return map[string]interface{}{
			pool[0]: 4, pool[4]: 11, "a": map[string]interface{}{"b": map[string]interface{}{"c": 3}}, "b": 2, "$l": 6, "zz": 9, "unused": "u", "b.b": 77, "$l.b": 78, "a.b.c": 79, "a.b": 80,
			"g":  func(x interface{}) (int, error) { return 7, nil },
			"gv": func(xs ...interface{}) (int, error) { return len(xs), nil },
			"o":  map[string]interface{}{"m": func(x interface{}) (int, error) { return 8, nil }},
		}
	}
	d1 := full()
	d2 := map[string]interface{}{}
	keep := append(append([]string{}, got...), info.called...)
	for k, v := range full() {
		for _, f := range keep {
			top := f
			if i := strings.IndexByte(f, '.'); i >= 0 {
				top = f[:i]
			}
			if top == k {
				d2[k] = v
			}
		}
	}
	r1, r2 := NewRunner(), NewRunner()
	r1.SetThis(d1)
	r2.SetThis(d2)
	v1, e1 := r1.Resolve(context.Background(), src.Expression)
	v2, e2 := r2.Resolve(context.Background(), src.Expression)
	vpAssert("C10/fields/sufficient-same-error", (e1 == nil) == (e2 == nil))
	if e1 == nil && e2 == nil {
		vpAssert("C10/fields/sufficient-same-value", vpDeepEq(v1, v2))
	}
	vpReach("C10/fields/done")
}
