package formula

import "strconv"

func init() {
	vpHarnesses["VP_C15_ranges"] = VP_C15_ranges
	vpHarnesses["VP_C15_errtext"] = VP_C15_errtext
}

// vpKids returns the child expressions of n in source order and, for member
// access, the name node (a name, not a value expression).
func vpKids(n Expression) (kids []Expression, name *Identifier) {
	switch e := n.(type) {
	case *PrefixUnaryExpression:
		return []Expression{e.Operand}, nil
	case *TypeOfExpression:
		return []Expression{e.Expression}, nil
	case *BinaryExpression:
		return []Expression{e.Left, e.Right}, nil
	case *ConditionalExpression:
		return []Expression{e.Condition, e.WhenTrue, e.WhenFalse}, nil
	case *ParenthesizedExpression:
		return []Expression{e.Expression}, nil
	case *ArrayLiteralExpression:
		return e.Elements.Array(), nil
	case *SelectorExpression:
		return []Expression{e.Expression}, e.Name
	case *CallExpression:
		return append([]Expression{e.Expression}, e.Arguments.Array()...), nil
	}
	return nil, nil
}

// vpSameImplTree: structural equality of two implementation trees.
func vpSameImplTree(a, b Expression) bool {
	switch x := a.(type) {
	case *Identifier:
		y, ok := b.(*Identifier)
		return ok && x.Value == y.Value && x.OriginalToken == y.OriginalToken
	case *LiteralExpression:
		y, ok := b.(*LiteralExpression)
		return ok && x.Token == y.Token && x.Value == y.Value
	case *PrefixUnaryExpression:
		y, ok := b.(*PrefixUnaryExpression)
		return ok && x.Operator.Token == y.Operator.Token && vpSameImplTree(x.Operand, y.Operand)
	case *TypeOfExpression:
		y, ok := b.(*TypeOfExpression)
		return ok && vpSameImplTree(x.Expression, y.Expression)
	case *BinaryExpression:
		y, ok := b.(*BinaryExpression)
		return ok && x.Operator.Token == y.Operator.Token && vpSameImplTree(x.Left, y.Left) && vpSameImplTree(x.Right, y.Right)
	case *ConditionalExpression:
		y, ok := b.(*ConditionalExpression)
		return ok && vpSameImplTree(x.Condition, y.Condition) && vpSameImplTree(x.WhenTrue, y.WhenTrue) && vpSameImplTree(x.WhenFalse, y.WhenFalse)
	case *ParenthesizedExpression:
		y, ok := b.(*ParenthesizedExpression)
		return ok && vpSameImplTree(x.Expression, y.Expression)
	case *ArrayLiteralExpression:
		y, ok := b.(*ArrayLiteralExpression)
		if !ok || x.Elements.Len() != y.Elements.Len() {
			return false
		}
		for i := 0; i < x.Elements.Len(); i++ {
			if !vpSameImplTree(x.Elements.At(i), y.Elements.At(i)) {
				return false
			}
		}
		return true
	case *SelectorExpression:
		y, ok := b.(*SelectorExpression)
		return ok && x.Assert == y.Assert && x.Name.Value == y.Name.Value && vpSameImplTree(x.Expression, y.Expression)
	case *CallExpression:
		y, ok := b.(*CallExpression)
		if !ok || x.Arguments.Len() != y.Arguments.Len() || (x.DotDotDotToken != nil) != (y.DotDotDotToken != nil) {
			return false
		}
		if !vpSameImplTree(x.Expression, y.Expression) {
			return false
		}
		for i := 0; i < x.Arguments.Len(); i++ {
			if !vpSameImplTree(x.Arguments.At(i), y.Arguments.At(i)) {
				return false
			}
		}
		return true
	}
	return false
}

type vpRangeCheck struct {
	text                    []byte
	within, nested, ordered bool
	reparseOK, reparseSame  bool
	nodes                   int
}

func (c *vpRangeCheck) walk(n Expression, lo, hi int) {
	c.nodes++
	p, e := n.Pos(), n.End()
	if !(0 <= p && p <= e && e <= len(c.text)) {
		c.within = false
		return
	}
	if !(lo <= p && e <= hi) {
		c.nested = false
	}
	// the text of an expression node parses on its own to the same subtree
	sub, err := ParseSourceCode(c.text[p:e])
	if err != nil || sub == nil {
		c.reparseOK = false
	} else if !vpSameImplTree(sub.Expression, n) {
		c.reparseSame = false
	}
	kids, name := vpKids(n)
	prevEnd := p
	for _, k := range kids {
		if k == nil {
			c.nested = false
			continue
		}
		if k.Pos() < prevEnd {
			c.ordered = false
		}
		c.walk(k, p, e)
		prevEnd = k.End()
	}
	if name != nil {
		if !(p <= name.Pos() && name.Pos() <= name.End() && name.End() <= e) || name.Pos() < prevEnd {
			c.nested = false
		}
	}
}

// C15/ranges: every node's range lies within the text and contains its
// children's ranges in source order; every expression node re-parses alone.
func VP_C15_ranges() {
	L := vpParam("L")
	text := vpBytes("t", L)
	src, err := ParseSourceCode(text)
	if err != nil || src == nil {
		vpReach("C15/ranges/rejected")
		vpErrText(text, src, err)
		return
	}
	vpReach("C15/ranges/accepted")
	c := &vpRangeCheck{text: text, within: true, nested: true, ordered: true, reparseOK: true, reparseSame: true}
	c.walk(src.Expression, 0, L)
	vpObserve("nodes", c.nodes)
	vpAssert("C15/ranges/within-text", c.within)
	vpAssert("C15/ranges/children-inside-parent", c.nested)
	vpAssert("C15/ranges/source-order", c.ordered)
	vpAssert("C15/ranges/node-text-reparses", c.reparseOK)
	vpAssert("C15/ranges/reparse-same-subtree", c.reparseSame)
	vpAssert("C15/ranges/root-covers-input", src.Pos() == 0 && src.End() == L)
}

// C15/errtext: a syntax error that stems from a diagnostic is reported as
// "pos(line, column) error(code) message" locating the first diagnostic.
func VP_C15_errtext() {
	L := vpParam("L")
	text := vpBytes("t", L)
	src, err := ParseSourceCode(text)
	if err == nil {
		vpReach("C15/errtext/accepted")
		return
	}
	vpErrText(text, src, err)
}

func vpErrText(text []byte, src *SourceCode, err error) {
	L := len(text)
	if src == nil || len(src.Diagnostics) == 0 {
		// error without a diagnostic (end-of-input assertion): format not demanded
		vpReach("C15/errtext/no-diagnostic")
		return
	}
	vpReach("C15/errtext/diagnostic")
	inside := true
	for _, d := range src.Diagnostics {
		if d == nil || d.Start < 0 || d.Length < 0 || d.Start+d.Length > L {
			inside = false
		}
	}
	vpAssert("C15/errtext/diagnostics-inside-text", inside)
	d := src.Diagnostics[0]
	if d == nil || d.Start < 0 || d.Start > L {
		return
	}
	line, col := vpLineCol(text, d.Start)
	want := "pos(" + strconv.Itoa(line) + ", " + strconv.Itoa(col) + ") error(" + strconv.Itoa(d.Code) + ") " + d.MessageText
	vpObserve("err", err.Error())
	vpAssert("C15/errtext/format-and-position", err.Error() == want)
}

func init() {
	vpHarnesses["VP_C15_errpool"] = VP_C15_errpool
}

// C15/errpool: CONCRETE POOL of longer rejected texts (several diagnostics per
// text, diagnostics raised inside a token that is itself unexpected, invalid
// bytes near the end, multi-line texts with every kind of line break): the
// error text locates the first recorded diagnostic and every diagnostic lies
// within the text.
func VP_C15_errpool() {
	pool := []string{
		"f(1 'ab", "[1 2_]", "f(a,\n  b 'x\ny)", "f(\xff)", "[1,\xc3]", "f(a, \xe2\x80", "[\x80", "[1 '", "f(1 2 3)", "[a b c]", "f(a,\r\n b c)", "[1,  2 3]",
		"(1\r", "1 +\r", "f(@)\r", "a ? b\n: ", "f(a,, b)", "[,]", "f(a b, c d)", "[1_ 2]", "f('x\n', 2)", "x.\n", "[1\u0085 2]", "f(1\r\n\r\n 2)", "[\n\n\n1 2]", "'abc\xe2\x80", "f(1, \xe2\x80",
		// a diagnostic between the CR and the LF of one line break; nine and more lines; errors in column 0 of a late line
		"\"abc\\\r\n", "'x\\\r\n' + 1", "1 +\n2 +\n3 +\n4 +\n5 +\n6 +\n7 +\n8 +\n* 2", "[1,\n2,\n3,\n4,\n5,\n6,\n7,\n8,\n9,\n10\n11]", "f(\r\n\r\n\r\n\r\n\r\n\r\n\r\n\r\n\r\n\r\n)x",
		"a\u2028\u2028\u2028\u2028\u2028\u2028\u2028\u2028\u2028\u2028b c", "1\n\n\n\n\n\n\n\n\n\n\n\n)",
	}
	text := []byte(pool[vpChoice("text", len(pool))])
	src, err := ParseSourceCode(text)
	vpAssert("C15/errpool/rejected", err != nil)
	if err == nil {
		return
	}
	vpErrText(text, src, err)
	vpReach("C15/errpool/done")
}
