package formula

func init() {
	vpHarnesses["VP_C01_bytes"] = VP_C01_bytes
	vpHarnesses["VP_C01_pool"] = VP_C01_pool
	vpHarnesses["VP_C01_scaling"] = VP_C01_scaling
	vpHarnesses["VP_C01_lists"] = VP_C01_lists
}

// C01/lists: the list loops with full error recovery: a( t1..tK ) and [ t1..tK ]
// over the tokens the loops distinguish, with symbolic line-break flags.
func VP_C01_lists() {
	K := vpParam("K")
	alphabet := []SyntaxKind{SK_Identifier, SK_Comma, SK_Dot, SK_ExclamationDot, SK_OpenParen, SK_CloseParen, SK_CloseBracket, SK_NumberLiteral, SK_Plus, SK_DotDotDot}
	t := &vpTokens{}
	call := vpBool("call")
	if call {
		t.kinds = append(t.kinds, SK_Identifier, SK_OpenParen)
		t.lb = append(t.lb, false, false)
	} else {
		t.kinds = append(t.kinds, SK_OpenBracket)
		t.lb = append(t.lb, false)
	}
	for i := 0; i < K; i++ {
		k := SyntaxKind(vpInt("k"))
		ok := false
		for _, a := range alphabet {
			if k == a {
				ok = true
			}
		}
		vpAssume(ok)
		t.kinds = append(t.kinds, k)
		t.lb = append(t.lb, vpBool("lb"))
	}
	src, err := vpParseTokens(t, false)
	if err != nil {
		vpReach("C01/lists/rejected")
		return
	}
	vpReach("C01/lists/accepted")
	vpAssert("C01/lists/tree-present", src != nil && src.Expression != nil)
	if src == nil {
		return
	}
	vpAssert("C01/lists/no-diagnostics-without-error", len(src.Diagnostics) == 0)
	vpAssert("C01/lists/complete", vpComplete(src.Expression, 0))
}

// vpComplete reports whether a tree returned without error is complete:
// every operator node has all operands, names are non-empty, lists present.
func vpComplete(n Expression, depth int) bool {
	if depth > 200 {
		return false
	}
	switch e := n.(type) {
	case nil:
		return false
	case *Identifier:
		return e != nil && len(e.Value) > 0
	case *LiteralExpression:
		return e != nil
	case *PrefixUnaryExpression:
		return e != nil && e.Operator != nil && vpComplete(e.Operand, depth+1)
	case *TypeOfExpression:
		return e != nil && vpComplete(e.Expression, depth+1)
	case *BinaryExpression:
		return e != nil && e.Operator != nil && vpComplete(e.Left, depth+1) && vpComplete(e.Right, depth+1)
	case *ConditionalExpression:
		return e != nil && e.QuestionTok != nil && e.ColonTok != nil && vpComplete(e.Condition, depth+1) && vpComplete(e.WhenTrue, depth+1) && vpComplete(e.WhenFalse, depth+1)
	case *ParenthesizedExpression:
		return e != nil && vpComplete(e.Expression, depth+1)
	case *SelectorExpression:
		return e != nil && e.Name != nil && len(e.Name.Value) > 0 && vpComplete(e.Expression, depth+1)
	case *ArrayLiteralExpression:
		if e == nil || e.Elements == nil {
			return false
		}
		for i := 0; i < e.Elements.Len(); i++ {
			if !vpComplete(e.Elements.At(i), depth+1) {
				return false
			}
		}
		return true
	case *CallExpression:
		if e == nil || e.Arguments == nil || !vpComplete(e.Expression, depth+1) {
			return false
		}
		for i := 0; i < e.Arguments.Len(); i++ {
			if !vpComplete(e.Arguments.At(i), depth+1) {
				return false
			}
		}
		return true
	}
	return false
}

// C01/bytes: ParseSourceCode on every text of L symbolic bytes returns exactly
// one of (error) / (complete tree, whole input consumed) and never panics.
func VP_C01_bytes() {
	L := vpParam("L")
	text := vpBytes("t", L)
	vpC01CheckText(text)
}

// C01/pool: the same totality and completeness checks on the C02 pool of longer
// concrete formulas (keywords as member names and operands, nested lists and
// conditionals, truncated constructs).
func VP_C01_pool() {
	text := []byte(vpC02Texts[vpChoice("text", len(vpC02Texts))])
	vpC01CheckText(text)
	if vpHasStrayByte(text) {
		// a byte that can start no token cannot be consumed: the whole input was not
		// consumed, so the outcome must be the syntax error (also after a rolled-back look-ahead)
		_, err := ParseSourceCode(text)
		vpAssert("C01/pool/stray-byte-is-a-syntax-error", err != nil)
		vpReach("C01/pool/stray")
	}
}

// vpHasStrayByte: the text has one of # @ ` \ outside a quoted literal.
func vpHasStrayByte(text []byte) bool {
	var quote byte
	for i := 0; i < len(text); i++ {
		c := text[i]
		switch {
		case quote != 0:
			if c == '\\' {
				i++
			} else if c == quote {
				quote = 0
			}
		case c == '\'' || c == '"':
			quote = c
		case c == '#' || c == '@' || c == '`' || c == '\\':
			return true
		}
	}
	return false
}

func vpC01CheckText(text []byte) {
	L := len(text)
	src, err := ParseSourceCode(text)
	// exactly one of the two outcomes, on every call: a second parse of the same text agrees
	_, err2 := ParseSourceCode(text)
	vpAssert("C01/bytes/same-outcome-on-every-call", (err == nil) == (err2 == nil))
	if err != nil {
		vpReach("C01/bytes/rejected")
		vpObserve("err", true)
		return
	}
	vpReach("C01/bytes/accepted")
	vpObserve("err", false)
	vpAssert("C01/bytes/tree-present", src != nil && src.Expression != nil)
	if src == nil {
		return
	}
	vpAssert("C01/bytes/no-diagnostics-without-error", len(src.Diagnostics) == 0)
	vpAssert("C01/bytes/complete", vpComplete(src.Expression, 0))
	vpAssert("C01/bytes/eof-token", src.EndOfFileToken != nil && src.EndOfFileToken.Token == SK_EndOfFile && src.EndOfFileToken.End() == L)
}

// vpRepeat returns prefix + unit x n + suffix.
func vpRepeat(prefix, unit, suffix string, n int) []byte {
	b := []byte(prefix)
	for i := 0; i < n; i++ {
		b = append(b, unit...)
	}
	return append(b, suffix...)
}

// C01/scaling: "in time roughly proportional to the input length". For a pool
// of input shapes (valid and invalid, flat and nested, many diagnostics) the
// cost of parsing a text four times as long is at most about four times the
// cost: in the engine the cost is the number of SSA instructions executed
// (deterministic), natively the elapsed time (used only to confirm a candidate;
// the factor and the additive slack are generous).
func VP_C01_scaling() {
	shapes := []struct{ prefix, unit, suffix string }{
		{"1", " + 1", ""}, {"", "(", ""}, {"", "(", "1"}, {"f(", "#", ")"}, {"[", ": ", "]"}, {"f(", "? ", ""}, {"a", ".b", ""}, {"a", "(1)", ""}, {"", "-", "1"},
		{"[", "1, ", "1]"}, {"", "a ? ", "1"}, {"'", "\\n", "'"}, {"", "1 2 ", ""}, {"x", " = x", ""}, {"", "!", ""}, {"f(", "[", ""}, {"", "typeof ", "a"}, {"1", "\n+ 1", ""},
	}
	sh := shapes[vpChoice("shape", len(shapes))]
	n1, n2 := 96, 384
	if !vpSymbolic() {
		n1, n2 = 4096, 16384 // native timing needs inputs long enough to dominate noise (64 KiB for the longest unit)
	}
	t1, t2 := vpRepeat(sh.prefix, sh.unit, sh.suffix, n1), vpRepeat(sh.prefix, sh.unit, sh.suffix, n2)
	c0 := vpSteps()
	_, e1 := ParseSourceCode(t1)
	c1 := vpSteps()
	_, e2 := ParseSourceCode(t2)
	c2 := vpSteps()
	cost1, cost2 := c1-c0, c2-c1
	vpAssert("C01/scaling/same-verdict-at-both-lengths", (e1 == nil) == (e2 == nil))
	// four times the length: at most six times the cost (quadratic behaviour gives sixteen), plus a constant
	slack := int64(20000)
	if !vpSymbolic() {
		slack = 300000000 // 0.3 s
	}
	vpAssert("C01/scaling/cost-grows-about-linearly", cost2 <= 6*cost1+slack)
	vpReach("C01/scaling/done")
}
