package formula

func init() {
	vpHarnesses["VP_C01_bytes"] = VP_C01_bytes
}

// vpComplete reports whether a tree returned without error is complete:
// every operator node has all operands, names are non-empty, lists present.
func vpComplete(n Expression, depth int) bool {
	if depth > 200 {
		return false
	}
	switch e := n.(type) {
	case nil:
		return false
	case *Identifier:
		return e != nil && len(e.Value) > 0
	case *LiteralExpression:
		return e != nil
	case *PrefixUnaryExpression:
		return e != nil && e.Operator != nil && vpComplete(e.Operand, depth+1)
	case *TypeOfExpression:
		return e != nil && vpComplete(e.Expression, depth+1)
	case *BinaryExpression:
		return e != nil && e.Operator != nil && vpComplete(e.Left, depth+1) && vpComplete(e.Right, depth+1)
	case *ConditionalExpression:
		return e != nil && e.QuestionTok != nil && e.ColonTok != nil && vpComplete(e.Condition, depth+1) && vpComplete(e.WhenTrue, depth+1) && vpComplete(e.WhenFalse, depth+1)
	case *ParenthesizedExpression:
		return e != nil && vpComplete(e.Expression, depth+1)
	case *SelectorExpression:
		return e != nil && e.Name != nil && len(e.Name.Value) > 0 && vpComplete(e.Expression, depth+1)
	case *ArrayLiteralExpression:
		if e == nil || e.Elements == nil {
			return false
		}
		for i := 0; i < e.Elements.Len(); i++ {
			if !vpComplete(e.Elements.At(i), depth+1) {
				return false
			}
		}
		return true
	case *CallExpression:
		if e == nil || e.Arguments == nil || !vpComplete(e.Expression, depth+1) {
			return false
		}
		for i := 0; i < e.Arguments.Len(); i++ {
			if !vpComplete(e.Arguments.At(i), depth+1) {
				return false
			}
		}
		return true
	}
	return false
}

// C01/bytes: ParseSourceCode on every text of L symbolic bytes returns exactly
// one of (error) / (complete tree, whole input consumed) and never panics.
func VP_C01_bytes() {
	L := vpParam("L")
	text := vpBytes("t", L)
	src, err := ParseSourceCode(text)
	if err != nil {
		vpReach("C01/bytes/rejected")
		vpObserve("err", true)
		return
	}
	vpReach("C01/bytes/accepted")
	vpObserve("err", false)
	vpAssert("C01/bytes/tree-present", src != nil && src.Expression != nil)
	if src == nil {
		return
	}
	vpAssert("C01/bytes/no-diagnostics-without-error", len(src.Diagnostics) == 0)
	vpAssert("C01/bytes/complete", vpComplete(src.Expression, 0))
	vpAssert("C01/bytes/eof-token", src.EndOfFileToken != nil && src.EndOfFileToken.Token == SK_EndOfFile && src.EndOfFileToken.End() == L)
}
