package formula

import (
	"context"

	"github.com/ericlagergren/decimal"
)

func init() {
	vpHarnesses["VP_C05_numbers"] = VP_C05_numbers
	vpHarnesses["VP_C05_strings"] = VP_C05_strings
	vpHarnesses["VP_C05_kinds"] = VP_C05_kinds
}

var vpPow10 = []int64{1, 10, 100, 1000, 10000, 100000, 1000000, 10000000, 100000000, 1000000000, 10000000000, 100000000000, 1000000000000}

// vpNum is a symbolic finite decimal: (-1)^neg * coef * 10^exp with a concrete exponent.
type vpNum struct {
	neg  bool
	coef uint64
	exp  int
}

func vpSymNum(name string, cb int, e int) vpNum {
	n := vpNum{}
	n.coef = vpCoef(name+"c", cb)
	n.exp = vpChoice(name+"e", 2*e+1) - e
	n.neg = vpBool(name + "n")
	return n
}

// vpCoef draws a symbolic coefficient below cb (as few symbolic bits as needed).
func vpCoef(name string, cb int) uint64 {
	bits := 1
	for (uint64(1) << uint(bits)) < uint64(cb) {
		bits++
	}
	c := vpBits(name, bits)
	vpAssume(c < uint64(cb))
	return c
}

func (n vpNum) big() *decimal.Big {
	x := new(decimal.Big).SetMantScale(int64(n.coef), -n.exp)
	if n.neg {
		x.SetSignbit(true)
	}
	return x
}

// vpNumOrder: exact numeric order of two vpNums (-1, 0, +1) at the common exponent.
func vpNumOrder(a, b vpNum) int {
	if d := a.exp - b.exp; d > 12 || d < -12 {
		return vpNumOrderWide(a, b)
	}
	m := a.exp
	if b.exp < m {
		m = b.exp
	}
	A := int64(a.coef) * vpPow10[a.exp-m]
	B := int64(b.coef) * vpPow10[b.exp-m]
	if a.neg {
		A = -A
	}
	if b.neg {
		B = -B
	}
	switch {
	case A < B:
		return -1
	case A > B:
		return 1
	}
	return 0
}

// vpNumOrderWide: exponents more than 12 apart (coefficients below 10^9): a
// non-zero coefficient at the larger exponent dominates.
func vpNumOrderWide(a, b vpNum) int {
	sign := func(n vpNum) int {
		if n.coef == 0 {
			return 0
		}
		if n.neg {
			return -1
		}
		return 1
	}
	sa, sb := sign(a), sign(b)
	if sa != sb {
		if sa < sb {
			return -1
		}
		return 1
	}
	if sa == 0 {
		return 0
	}
	// same non-zero sign: larger exponent has the larger magnitude
	bigger := 1
	if a.exp < b.exp {
		bigger = -1
	}
	return bigger * sa
}

func vpBin(op SyntaxKind, l, r Expression) *BinaryExpression {
	return &BinaryExpression{Left: l, Operator: &TokenNode{Token: op}, Right: r}
}

func vpId(name string) *Identifier { return &Identifier{Value: name, OriginalToken: SK_Identifier} }

// vpEvalBool evaluates `a OP b` against data and returns the boolean result.
func vpEvalBool(data map[string]interface{}, op SyntaxKind) (bool, bool) {
	r := NewRunner()
	r.SetThis(data)
	v, err := r.Resolve(context.Background(), vpBin(op, vpId("a"), vpId("b")))
	if err != nil {
		return false, false
	}
	b, ok := v.(bool)
	return b, ok
}

type vpCmpResults struct {
	lt, gt, le, ge, eq, ne, seq, sne bool
	ok                               bool
}

func vpAllCmp(data map[string]interface{}) vpCmpResults {
	var r vpCmpResults
	var o [8]bool
	r.lt, o[0] = vpEvalBool(data, SK_LessThan)
	r.gt, o[1] = vpEvalBool(data, SK_GreaterThan)
	r.le, o[2] = vpEvalBool(data, SK_LessThanEquals)
	r.ge, o[3] = vpEvalBool(data, SK_GreaterThanEquals)
	r.eq, o[4] = vpEvalBool(data, SK_EqualsEquals)
	r.ne, o[5] = vpEvalBool(data, SK_ExclamationEquals)
	r.seq, o[6] = vpEvalBool(data, SK_EqualsEqualsEquals)
	r.sne, o[7] = vpEvalBool(data, SK_ExclamationEqualsEquals)
	r.ok = true
	for _, k := range o {
		r.ok = r.ok && k
	}
	return r
}

// C05/numbers: trichotomy in agreement with numeric order, representation independent.
func VP_C05_numbers() {
	CB, E := vpParam("CB"), vpParam("E")
	a, b := vpSymNum("a", CB, E), vpSymNum("b", CB, E)
	if B := vpParam("NEAR"); B > 0 {
		// 16-digit coefficients a few units apart (distinct decimals that collapse in binary floating point)
		base := uint64(8000000000000000)
		if B == 2 {
			base = 9007199254740990
		}
		a.coef, b.coef = base+vpBits("ad", 3), base+vpBits("bd", 3)
		a.exp = -vpChoice("ne", 3) * 7
		b.exp = a.exp
		a.neg = vpBool("nn")
		b.neg = a.neg
	}
	if W := vpParam("WIDE"); W > 0 {
		// wide scales: exponents from a sparse grid up to 10^W (values beyond 2^63 and 34 digits apart)
		grid := []int{0, 1, W / 2, W - 1, W}
		a.exp = grid[vpChoice("awe", len(grid))]
		b.exp = grid[vpChoice("bwe", len(grid))]
		if vpBool("aneg") {
			a.exp = -a.exp
		}
	}
	data := map[string]interface{}{"a": a.big(), "b": b.big()}
	res := vpAllCmp(data)
	vpAssert("C05/numbers/all-operators-yield-booleans", res.ok)
	if !res.ok {
		return
	}
	ord := vpNumOrder(a, b)
	vpObserve("cmp", ord, res.lt, res.eq, res.gt)
	vpAssert("C05/numbers/less", res.lt == (ord < 0))
	vpAssert("C05/numbers/equal", res.eq == (ord == 0))
	vpAssert("C05/numbers/greater", res.gt == (ord > 0))
	vpAssert("C05/numbers/less-or-equal", res.le == (ord <= 0))
	vpAssert("C05/numbers/greater-or-equal", res.ge == (ord >= 0))
	vpAssert("C05/numbers/strict-equal", res.seq == (ord == 0))
	vpAssert("C05/numbers/not-equal-is-negation", res.ne == !res.eq)
	vpAssert("C05/numbers/strict-not-equal-is-negation", res.sne == !res.seq)
	vpReach("C05/numbers/done")
}

func vpBytesLess(a, b []byte) bool {
	for i := 0; i < len(a) && i < len(b); i++ {
		if a[i] != b[i] {
			return a[i] < b[i]
		}
	}
	return len(a) < len(b)
}

func vpBytesEq(a, b []byte) bool {
	if len(a) != len(b) {
		return false
	}
	for i := range a {
		if a[i] != b[i] {
			return false
		}
	}
	return true
}

// C05/strings: byte-wise lexicographic order; equality.
func VP_C05_strings() {
	S := vpParam("S")
	na, nb := vpChoice("na", S+1), vpChoice("nb", S+1)
	a, b := vpBytes("a", na), vpBytes("b", nb)
	data := map[string]interface{}{"a": string(a), "b": string(b)}
	res := vpAllCmp(data)
	vpAssert("C05/strings/all-operators-yield-booleans", res.ok)
	if !res.ok {
		return
	}
	lt, eq := vpBytesLess(a, b), vpBytesEq(a, b)
	vpAssert("C05/strings/less", res.lt == lt)
	vpAssert("C05/strings/greater", res.gt == (!lt && !eq))
	vpAssert("C05/strings/less-or-equal", res.le == (lt || eq))
	vpAssert("C05/strings/greater-or-equal", res.ge == !lt)
	vpAssert("C05/strings/equal", res.eq == eq)
	vpAssert("C05/strings/strict-equal", res.seq == eq)
	vpAssert("C05/strings/not-equal-is-negation", res.ne == !res.eq)
	vpAssert("C05/strings/strict-not-equal-is-negation", res.sne == !res.seq)
	vpReach("C05/strings/done")
}

const (
	vkNull = iota
	vkTypedNil
	vkBool
	vkNumber
	vkString
	vkCount
)

type vpAny struct {
	kind int
	b    bool
	n    vpNum
	s    []byte
}

func vpSymAny(name string) vpAny {
	v := vpAny{kind: vpChoice(name+"k", vkCount)}
	switch v.kind {
	case vkBool:
		v.b = vpBool(name + "b")
	case vkNumber:
		v.n = vpSymNum(name, 1000, 1)
	case vkString:
		v.s = vpBytes(name+"s", vpChoice(name+"l", 2))
	}
	return v
}

func (v vpAny) value() interface{} {
	switch v.kind {
	case vkTypedNil:
		return (*int)(nil)
	case vkBool:
		return v.b
	case vkNumber:
		return v.n.big()
	case vkString:
		return string(v.s)
	}
	return nil
}

func (v vpAny) isNull() bool { return v.kind == vkNull || v.kind == vkTypedNil }

// C05/kinds: === across kinds; != and !== are always negations; == coincides
// with === on equal kinds.
func VP_C05_kinds() {
	a, b := vpSymAny("a"), vpSymAny("b")
	data := map[string]interface{}{"a": a.value(), "b": b.value()}
	eq, ok1 := vpEvalBool(data, SK_EqualsEquals)
	ne, ok2 := vpEvalBool(data, SK_ExclamationEquals)
	seq, ok3 := vpEvalBool(data, SK_EqualsEqualsEquals)
	sne, ok4 := vpEvalBool(data, SK_ExclamationEqualsEquals)
	vpAssert("C05/kinds/equality-operators-yield-booleans", ok1 && ok2 && ok3 && ok4)
	if !(ok1 && ok2 && ok3 && ok4) {
		return
	}
	vpObserve("kinds", a.kind, b.kind, eq, seq)
	vpAssert("C05/kinds/not-equal-is-negation", ne == !eq)
	vpAssert("C05/kinds/strict-not-equal-is-negation", sne == !seq)
	var want bool
	sameKind := false
	switch {
	case a.isNull() && b.isNull():
		want, sameKind = true, true
	case a.isNull() || b.isNull():
		want = false
	case a.kind != b.kind:
		want = false
	case a.kind == vkBool:
		want, sameKind = a.b == b.b, true
	case a.kind == vkNumber:
		want, sameKind = vpNumOrder(a.n, b.n) == 0, true
	case a.kind == vkString:
		want, sameKind = vpBytesEq(a.s, b.s), true
	}
	vpAssert("C05/kinds/strict-equal", seq == want)
	if sameKind {
		vpAssert("C05/kinds/loose-equals-strict-on-same-kind", eq == seq)
	}
	vpReach("C05/kinds/done")
}

func init() {
	vpHarnesses["VP_C05_pool"] = VP_C05_pool
}

// C05/pool: CONCRETE POOL (not symbolic) of number pairs outside the symbolic
// bounds: 34-digit coefficients differing in the last digit, values that
// collapse in binary floating point, exponents far beyond the float64 range,
// different spellings of one value. Each pair is written as literals, compared
// by all eight operators through the parser and the runner, in both orders.
func VP_C05_pool() {
	pool := []struct {
		a, b string
		ord  int
	}{
		{"1234567890123456789012345678901234", "1234567890123456789012345678901235", -1},
		{"1", "1.000000000000000000000000000000001", -1},
		{"0.3333333333333333", "0.3333333333333333333333333333333333", -1},
		{"1e-400", "2e-400", -1}, {"1e400", "1e500", -1}, {"1e-400", "0", 1}, {"9e-6000", "1e-5999", -1},
		{"9007199254740993", "9007199254740992", 1}, {"9007199254740993", "9007199254740993.0", 0},
		{"0.1", "0.1000000000000000055511151231257827", -1}, {"1e23", "99999999999999991611392", 1},
		{"1", "1.0", 0}, {"1", "1e0", 0}, {"1", "10e-1", 0}, {"100", "1e2", 0}, {"0.5", "5e-1", 0}, {"1e400", "10e399", 0}, {"0", "0.000", 0}, {"0e5", "0", 0},
		{"18446744073709551616", "18446744073709551615", 1}, {"9223372036854775808", "9223372036854775807", 1},
		{"123456789012345678901234567890.1234", "123456789012345678901234567890.1235", -1},
		{"4.9e-324", "5e-324", -1}, {"1.7976931348623157e308", "1.7976931348623158e308", -1},
		// operands that are themselves computed numbers (prefix operators on numeric text, arithmetic)
		{"(+'5')", "5", 0}, {"(-'0')", "0", 0}, {"(+'12')", "13", -1}, {"(+'1.50')", "1.5", 0}, {"(0.1 + 0.2)", "0.3", 0}, {"(1 / 4)", "0.25", 0}, {"(2 * 3)", "(7 - 1)", 0}, {"(- -3)", "3", 0}, {"1_0e-1", "1", 0}, {"2_5e-2", "0.25", 0}, {"1_0.0E-1", "5", -1},
	}
	p := pool[vpChoice("pair", len(pool))]
	a, b, ord := p.a, p.b, p.ord
	if vpBool("swap") {
		a, b, ord = b, a, -ord
	}
	neg := vpBool("neg")
	if neg {
		a, b, ord = "-"+a, "-"+b, -ord
	}
	ops := []string{"<", ">", "<=", ">=", "==", "!=", "===", "!=="}
	want := []bool{ord < 0, ord > 0, ord <= 0, ord >= 0, ord == 0, ord != 0, ord == 0, ord != 0}
	labels := []string{"less", "greater", "less-or-equal", "greater-or-equal", "equal", "not-equal", "strict-equal", "strict-not-equal"}
	for i, op := range ops {
		code, err := ParseSourceCode([]byte(a + " " + op + " " + b))
		if err != nil {
			vpAssert("C05/pool/parses", false)
			return
		}
		v, rerr := NewRunner().Resolve(context.Background(), code.Expression)
		got, ok := v.(bool)
		vpAssert("C05/pool/"+labels[i], rerr == nil && ok && got == want[i])
	}
	vpObserve("pair", a, b, ord)
	vpReach("C05/pool/done")
}
