package formula

func init() {
	vpHarnesses["VP_C14_tokens"] = VP_C14_tokens
}

type vpTok struct {
	kind       SyntaxKind
	start, end int
	lb         bool
}

var vpOpTable = []struct {
	text string
	kind SyntaxKind
}{
	{"===", SK_EqualsEqualsEquals}, {"!==", SK_ExclamationEqualsEquals}, {"...", SK_DotDotDot},
	{"==", SK_EqualsEquals}, {"!=", SK_ExclamationEquals}, {"!.", SK_ExclamationDot}, {"!!", SK_ExclamationExclamation},
	{"&&", SK_AmpersandAmpersand}, {"||", SK_BarBar}, {"??", SK_QuestionQuestion}, {"<=", SK_LessThanEquals}, {">=", SK_GreaterThanEquals},
	{"(", SK_OpenParen}, {")", SK_CloseParen}, {"[", SK_OpenBracket}, {"]", SK_CloseBracket}, {".", SK_Dot}, {",", SK_Comma},
	{"<", SK_LessThan}, {">", SK_GreaterThan}, {"+", SK_Plus}, {"-", SK_Minus}, {"*", SK_Asterisk}, {"/", SK_Slash}, {"%", SK_Percent},
	{"&", SK_Ampersand}, {"|", SK_Bar}, {"^", SK_Caret}, {"!", SK_Exclamation}, {"~", SK_Tilde}, {"?", SK_Question}, {":", SK_Colon}, {"=", SK_Equals},
}

func vpHasPrefixBytes(b []byte, s string) bool {
	if len(b) < len(s) {
		return false
	}
	for i := 0; i < len(s); i++ {
		if b[i] != s[i] {
			return false
		}
	}
	return true
}

// vpRefTokenize: independent longest-match tokenizer written from the
// statement. It stops (cut=true) where the statement leaves the token extent
// open: malformed numbers, hex literals, unterminated strings, unicode escapes
// in identifiers.
func vpRefTokenize(text []byte) (toks []vpTok, cut bool) {
	toks, cut, _ = vpRefTokenize2(text)
	return
}

// vpRefTokenize2 additionally reports invalid=true when it stopped at a
// lexical error the statement does name: a numeric literal immediately
// followed by an identifier character (this includes 0x.., the grammar has no
// hexadecimal literals).
func vpRefTokenize2(text []byte) (toks []vpTok, cut bool, invalid bool) {
	pos := 0
	for {
		lb := false
		// separators: ES whitespace and line breaks
		for pos < len(text) {
			ch, size := vpDecode(text[pos:])
			if vpRefLineBreak(ch) {
				lb = true
			} else if !(vpRefWhiteMust(ch) || vpRefWhiteMay(ch)) {
				break
			} else if vpRefWhiteMay(ch) {
				return toks, true, false // editions disagree on this code point
			}
			pos += size
		}
		if pos >= len(text) {
			toks = append(toks, vpTok{SK_EndOfFile, pos, pos, lb})
			return toks, false, false
		}
		rest := text[pos:]
		c := rest[0]
		switch {
		case vpIsDigit(c) || (c == '.' && len(rest) > 1 && vpIsDigit(rest[1])):
			if c == '0' && len(rest) > 1 && (rest[1] == 'x' || rest[1] == 'X') {
				return toks, true, true
			}
			// extent of the literal: digits/underscores [. digits] [e[+-]digits]
			i := 0
			for i < len(rest) && (vpIsDigit(rest[i]) || rest[i] == '_') {
				i++
			}
			if i < len(rest) && rest[i] == '.' {
				i++
				for i < len(rest) && (vpIsDigit(rest[i]) || rest[i] == '_') {
					i++
				}
			}
			if i < len(rest) && (rest[i] == 'e' || rest[i] == 'E') {
				j := i + 1
				if j < len(rest) && (rest[j] == '+' || rest[j] == '-') {
					j++
				}
				k := j
				for k < len(rest) && (vpIsDigit(rest[k]) || rest[k] == '_') {
					k++
				}
				if k == j {
					return toks, true, false // exponent without digits: malformed, extent not specified
				}
				i = k
			}
			for k := 0; k < i; k++ {
				if rest[k] == '_' {
					return toks, true, false // separators: well-formedness is C12's subject
				}
			}
			toks = append(toks, vpTok{SK_NumberLiteral, pos, pos + i, lb})
			pos += i
			// an identifier character directly after a literal is an error; stop comparing
			if pos < len(text) {
				ch, _ := vpDecode(text[pos:])
				if IsIdentifierStart(ch) {
					return toks, true, true
				}
			}
		case c == '\'' || c == '"':
			i := 1
			closed := false
			for i < len(rest) {
				ch, size := vpDecode(rest[i:])
				if rest[i] == c {
					i++
					closed = true
					break
				}
				if rest[i] == '\\' {
					return toks, true, false // escape sequences: C13's subject
				}
				if vpRefLineBreak(ch) {
					break
				}
				i += size
			}
			if !closed {
				return toks, true, false
			}
			toks = append(toks, vpTok{SK_StringLiteral, pos, pos + i, lb})
			pos += i
		default:
			ch, size := vpDecode(rest)
			if IsIdentifierStart(ch) {
				i := size
				for i < len(rest) {
					ch2, s2 := vpDecode(rest[i:])
					if ch2 == '\\' {
						return toks, true, false
					}
					if !IsIdentifierPart(ch2) {
						break
					}
					i += s2
				}
				kind := SK_Identifier
				for k := SK_FirstKeyword; k <= SK_LastKeyword; k++ {
					if len(tokens[k]) == i && vpHasPrefixBytes(rest, tokens[k]) {
						kind = k // keywords are recognised only as whole words
					}
				}
				toks = append(toks, vpTok{kind, pos, pos + i, lb})
				pos += i
				continue
			}
			matched := false
			for _, op := range vpOpTable {
				if vpHasPrefixBytes(rest, op.text) {
					toks = append(toks, vpTok{op.kind, pos, pos + len(op.text), lb})
					pos += len(op.text)
					matched = true
					break
				}
			}
			if !matched {
				toks = append(toks, vpTok{SK_Unknown, pos, pos + size, lb})
				pos += size
			}
		}
	}
}

// C14/tokens: the real scanner's token sequence equals the reference
// longest-match tokenizer's on every text of L symbolic bytes.
func VP_C14_tokens() {
	L := vpParam("L")
	text := vpBytes("t", L)
	if vpParam("OPS") == 2 {
		// identifier alphabet: ASCII letters/digits/$/_ and the bytes of U+0301 (combining acute: part, not start),
		// U+0661 (Arabic-Indic digit: part, not start), U+00E9 (letter) and space
		for _, c := range text {
			ok := false
			for _, a := range []byte("a1$_ \xcc\x81\xd9\xa1\xc3\xa9") {
				if c == a {
					ok = true
				}
			}
			vpAssume(ok)
		}
	}
	if vpParam("OPS") == 1 {
		// operator-dense alphabet (longer texts at the same cost)
		for _, c := range text {
			ok := false
			for _, a := range []byte("=!.&|?<>+a1 \n\xc2\xa0") { // incl. the two bytes of NBSP
				if c == a {
					ok = true
				}
			}
			vpAssume(ok)
		}
	}
	want, cut := vpRefTokenize(text)
	s := CreateScanner(text, nil)
	same := true
	n := 0
	for _, w := range want {
		k := s.Scan()
		if k == SK_NumberLiteral {
			// (the hex-literal path returns a kind without setting the current token; not compared)
		}
		n++
		if k != w.kind || s.GetTokenPos() != w.start || s.GetTextPos() != w.end || s.HasPrecedingLineBreak() != w.lb {
			same = false
			break
		}
	}
	vpObserve("tokens", n, cut)
	vpAssert("C14/tokens/longest-match-kinds-and-extents", same)
	if !cut {
		vpAssert("C14/tokens/ends-at-end-of-input", s.GetTextPos() == L || !same)
		vpReach("C14/tokens/complete")
	} else {
		vpReach("C14/tokens/cut")
	}
}
