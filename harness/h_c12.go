package formula

import (
	"context"
	"math/big"

	"github.com/ericlagergren/decimal"
)

func init() {
	vpHarnesses["VP_C12_literals"] = VP_C12_literals
	vpHarnesses["VP_C12_long"] = VP_C12_long
}

// C12/long: "however many digits it has". CONCRETE POOL of long literals
// (beyond 2^63, 2^64, 34 and 40 digits); the expected value is assembled with
// math/big from the digit string, independently of the decimal parser.
func VP_C12_long() {
	pool := []struct {
		text   string
		digits string // all significant digits, separators removed
		scale  int    // number of fraction digits minus exponent
	}{
		{"9223372036854775807", "9223372036854775807", 0}, {"9223372036854775808", "9223372036854775808", 0}, {"18446744073709551615", "18446744073709551615", 0},
		{"18446744073709551616", "18446744073709551616", 0}, {"00018446744073709551615", "18446744073709551615", 0}, {"1_8446744073709551615", "18446744073709551615", 0},
		{"1234567890123456789012345678901234", "1234567890123456789012345678901234", 0}, {"1234567890123456789012345678901234567890", "1234567890123456789012345678901234567890", 0},
		{"0.0000000000000000000000000000000000000001", "1", 40}, {"12345678901234567890.12345678901234", "1234567890123456789012345678901234", 14},
		{"9223372036854775808e2", "9223372036854775808", -2}, {"92233720368547758.08", "9223372036854775808", 2}, {"010", "10", 0}, {"0777", "777", 0},
		// exponents beyond the range of binary floating point, subnormal range, short texts
		{"1e-400", "1", 400}, {"2.5E-330", "25", 331}, {".7e-999", "7", 1000}, {"1.2345e-320", "12345", 324}, {"1e400", "1", -400}, {"9e+999", "9", -999},
		{"5e-324", "5", 324}, {"4.9e-324", "49", 325}, {"1e-7", "1", 7}, {"1.7976931348623157e308", "17976931348623157", -292}, {"2e308", "2", -308}, {"0.1", "1", 1}, {"1e23", "1", -23},
		{"9007199254740993", "9007199254740993", 0}, {"0.30000000000000004", "30000000000000004", 17}, {"123456789012345e-300", "123456789012345", 300},
	}
	p := pool[vpChoice("lit", len(pool))]
	code, err := ParseSourceCode([]byte(p.text))
	vpAssert("C12/long/accepted", err == nil)
	if err != nil {
		return
	}
	v, rerr := vpExact(NewRunner(), context.Background(), code.Expression)
	got, ok := v.(*decimal.Big)
	vpAssert("C12/long/is-number", rerr == nil && ok && got != nil)
	if !ok || got == nil {
		return
	}
	n, okBig := new(big.Int).SetString(p.digits, 10)
	want := new(decimal.Big).SetBigMantScale(n, p.scale)
	vpObserve("long", p.text, got.String())
	vpAssert("C12/long/exact-value", okBig && got.IsFinite() && got.Cmp(want) == 0 && !got.Signbit())
	vpReach("C12/long/done")
}

const (
	vpLitWell = iota
	vpLitMalformed
	vpLitNotLiteral
)

func vpIsDigit(c byte) bool { return c >= '0' && c <= '9' }

// vpDigitGroup scans digits with underscores from text[i:]; returns the new
// index, whether a digit was seen, whether an underscore was misplaced, and
// appends the digits (without separators) to *digs.
func vpDigitGroup(text []byte, i int, digs *[]byte) (int, bool, bool) {
	seen, bad := false, false
	prevDigit := false
	for i < len(text) {
		c := text[i]
		if vpIsDigit(c) {
			*digs = append(*digs, c)
			seen, prevDigit = true, true
			i++
			continue
		}
		if c == '_' {
			// must be between two digits of this group
			if !prevDigit || i+1 >= len(text) || !vpIsDigit(text[i+1]) {
				bad = true
			}
			prevDigit = false
			i++
			continue
		}
		break
	}
	return i, seen, bad
}

// vpRefLiteral is the reference recogniser written from the statement. For a
// well-formed literal it returns the digit string (integer and fraction digits
// concatenated), the number of fraction digits and the exponent.
func vpRefLiteral(text []byte) (kind int, digits []byte, frac int, exp int) {
	if len(text) == 0 {
		return vpLitNotLiteral, nil, 0, 0
	}
	if !(vpIsDigit(text[0]) || (text[0] == '.' && len(text) > 1 && vpIsDigit(text[1]))) {
		return vpLitNotLiteral, nil, 0, 0
	}
	bad := false
	i, seenInt, b := vpDigitGroup(text, 0, &digits)
	bad = bad || b
	nInt := len(digits)
	if i < len(text) && text[i] == '.' {
		i++
		var seenFrac bool
		i, seenFrac, b = vpDigitGroup(text, i, &digits)
		bad = bad || b
		if !seenInt && !seenFrac {
			return vpLitNotLiteral, nil, 0, 0
		}
	}
	frac = len(digits) - nInt
	if i < len(text) && (text[i] == 'e' || text[i] == 'E') {
		i++
		neg := false
		if i < len(text) && (text[i] == '+' || text[i] == '-') {
			neg = text[i] == '-'
			i++
		}
		var ed []byte
		var seenExp bool
		i, seenExp, b = vpDigitGroup(text, i, &ed)
		bad = bad || b
		if !seenExp {
			bad = true // exponent without digits
		}
		for _, d := range ed {
			exp = exp*10 + int(d-'0')
		}
		if neg {
			exp = -exp
		}
	}
	if i < len(text) {
		c := text[i]
		if c >= 'a' && c <= 'z' || c >= 'A' && c <= 'Z' || c == '$' || c == '_' {
			return vpLitMalformed, nil, 0, 0 // immediately followed by an identifier character
		}
		return vpLitNotLiteral, nil, 0, 0 // something else follows: an expression, not one literal
	}
	if bad {
		return vpLitMalformed, nil, 0, 0
	}
	return vpLitWell, digits, frac, exp
}

// C12/literals: every text over the literal alphabet that is exactly one
// literal candidate either denotes exactly the decimal number written or is a
// syntax error.
func VP_C12_literals() {
	L := vpParam("L")
	n := 1 + vpChoice("n", L)
	text := vpBytes("t", n)
	for _, c := range text {
		if vpParam("ALPHA") == 1 {
			// reduced alphabet (longer literals at the same cost): digits . e - _
			vpAssume(vpIsDigit(c) || c == '.' || c == 'e' || c == '-' || c == '_')
		} else {
			vpAssume(vpIsDigit(c) || c == '.' || c == 'e' || c == 'E' || c == '+' || c == '-' || c == '_' || c == 'a')
		}
	}
	kind, digits, frac, exp := vpRefLiteral(text)
	vpAssume(kind != vpLitNotLiteral)
	pos := vpChoice("ctx", vpParam("CTX"))
	var src []byte
	switch pos {
	case 0:
		src = text
	case 1:
		src = append(append([]byte("["), text...), ']')
	case 2:
		src = append(append([]byte("1?("), text...), []byte("):0")...)
	case 3: // after another literal
		src = append(append([]byte("[7, "), text...), ']')
	case 4: // before a literal with a separator
		src = append(append([]byte("["), text...), []byte(", 1_0]")...)
	case 5: // negated, and the same tree evaluated twice
		src = append([]byte("-"), text...)
	}
	code, err := ParseSourceCode(src)
	vpObserve("src", src, kind, err != nil)
	if kind == vpLitMalformed {
		vpAssert("C12/literals/malformed-is-syntax-error", err != nil)
		vpReach("C12/literals/malformed")
		return
	}
	vpReach("C12/literals/wellformed")
	vpAssert("C12/literals/wellformed-accepted", err == nil)
	if err != nil {
		return
	}
	r := NewRunner()
	v, rerr := vpExact(r, context.Background(), code.Expression)
	vpAssert("C12/literals/evaluates", rerr == nil)
	if rerr != nil {
		return
	}
	if pos == 1 {
		arr, ok := v.([]interface{})
		vpAssert("C12/literals/array-of-one", ok && len(arr) == 1)
		if !ok || len(arr) != 1 {
			return
		}
		v = arr[0]
	}
	if pos == 3 || pos == 4 {
		arr, ok := v.([]interface{})
		vpAssert("C12/literals/array-of-two", ok && len(arr) == 2)
		if !ok || len(arr) != 2 {
			return
		}
		other, _ := arr[pos-3].(*decimal.Big)
		vpAssert("C12/literals/neighbour-literal-exact", other != nil && vpBigEq(other, false, uint64(7+3*(pos-3)), 0))
		v = arr[4-pos]
	}
	if pos == 5 && (exp-frac > 6000 || exp-frac < -6000) {
		// unary minus computes in the decimal128 context: beyond its exponent range the negated
		// literal overflows / underflows, which C12 (about the literal itself) does not speak of
		vpReach("C12/literals/negated-beyond-decimal128-range")
		return
	}
	if pos == 5 {
		// the second evaluation of the same tree (fresh runner) is the one judged
		v2, rerr2 := vpExact(NewRunner(), context.Background(), code.Expression)
		vpAssert("C12/literals/evaluates-again", rerr2 == nil)
		if rerr2 != nil {
			return
		}
		v = v2
	}
	got, ok := v.(*decimal.Big)
	vpAssert("C12/literals/is-number", ok && got != nil)
	if !ok || got == nil {
		return
	}
	// expected value by Horner's rule (symbolic digits, concrete length)
	var coef uint64
	for _, d := range digits {
		coef = coef*10 + uint64(d-'0')
	}
	vpAssert("C12/literals/finite", got.IsFinite())
	if !got.IsFinite() {
		return
	}
	// compare coefficient and exponent directly: got = m x 10^ge, want = coef x 10^we
	m, mok := got.Mantissa()
	vpAssert("C12/literals/compact-coefficient", mok)
	if !mok {
		return
	}
	if pos == 5 {
		vpAssert("C12/literals/negated-both-times", got.Signbit() || coef == 0)
	} else {
		vpAssert("C12/literals/non-negative", !got.Signbit())
	}
	if coef == 0 {
		vpAssert("C12/literals/exact-value", m == 0)
		return
	}
	ge := -got.Scale()
	we := exp - frac
	d := ge - we
	switch {
	case d >= 0 && d <= 12:
		p := uint64(1)
		for k := 0; k < d; k++ {
			p *= 10
		}
		vpAssert("C12/literals/exact-value", m*p == coef)
	case d < 0 && d >= -12:
		p := uint64(1)
		for k := 0; k < -d; k++ {
			p *= 10
		}
		vpAssert("C12/literals/exact-value", m == coef*p)
	default:
		// both coefficients are non-zero and below 10^7: a gap of more than 12 decades cannot be equal
		vpAssert("C12/literals/exact-value", false)
	}
}

func init() {
	vpHarnesses["VP_C12_pairs"] = VP_C12_pairs
}

// C12/pairs: CONCRETE POOL of formulas with several literals (separators,
// exponents, fractions in different combinations): every literal keeps the
// value written, whatever stands next to it.
func VP_C12_pairs() {
	pool := []struct {
		f    string
		want []string
	}{
		{"[1_0, 2_5]", []string{"10", "25"}}, {"[1_000, 2_0]", []string{"1000", "20"}}, {"[1_000 + 2_0]", []string{"1020"}}, {"[7, 1_000, 7]", []string{"7", "1000", "7"}},
		{"[1e3, .5_0, 1_0.2_5e0_1]", []string{"1E+3", "0.50", "102.5"}}, {"[1_0e-1, 1_0e+1, 1_0e1]", []string{"1.0", "1.0E+2", "1.0E+2"}}, {"[0.1, 0.1_0, 1_1.1_1]", []string{"0.1", "0.10", "11.11"}},
		{"[9_9, 9_9, 9_8]", []string{"99", "99", "98"}}, {"[12_345.678_9, 1_2]", []string{"12345.6789", "12"}}, {"[1_000e-3, 2_500.5E-2, 1e-1_0]", []string{"1.000", "25.005", "1E-10"}},
	}
	p := pool[vpChoice("f", len(pool))]
	code, err := ParseSourceCode([]byte(p.f))
	vpAssert("C12/pairs/parses", err == nil)
	if err != nil {
		return
	}
	v, rerr := NewRunner().Resolve(context.Background(), code.Expression)
	arr, ok := v.([]interface{})
	vpAssert("C12/pairs/evaluates", rerr == nil && ok && len(arr) == len(p.want))
	if rerr != nil || !ok || len(arr) != len(p.want) {
		return
	}
	for i, w := range p.want {
		g, isNum := arr[i].(*decimal.Big)
		wantBig, _ := new(decimal.Big).SetString(w)
		vpAssert("C12/pairs/every-literal-exact", isNum && g != nil && wantBig != nil && g.Cmp(wantBig) == 0)
	}
	vpObserve("pairs", p.f)
	vpReach("C12/pairs/done")
}
