package formula

func init() {
	vpHarnesses["VP_C02_postfix"] = VP_C02_postfix
}

// C02/postfix (layer E): a primary followed by K symbolic tokens over the
// postfix alphabet { . !. ( ) name , } with symbolic line-break flags: member
// access and calls must start on the line of their target, `.` / `!.` need a
// name, argument lists nest as written.
func VP_C02_postfix() {
	K := vpParam("K")
	alphabet := []SyntaxKind{SK_Dot, SK_ExclamationDot, SK_OpenParen, SK_CloseParen, SK_Identifier, SK_Comma}
	t := &vpTokens{kinds: []SyntaxKind{SK_Identifier}, lb: []bool{false}}
	for i := 0; i < K; i++ {
		k := SyntaxKind(vpInt("k"))
		ok := false
		for _, a := range alphabet {
			if k == a {
				ok = true
			}
		}
		vpAssume(ok)
		t.kinds = append(t.kinds, k)
		t.lb = append(t.lb, vpBool("lb"))
	}
	// CUT=0: full error recovery (a diagnostic recorded early must still make the parse fail later)
	vpCompareParsers(t, vpParam("CUT") == 1, "C02/postfix")
}
