package formula

import "context"

func init() {
	vpHarnesses["VP_C13_roundtrip"] = VP_C13_roundtrip
	vpHarnesses["VP_C13_open"] = VP_C13_open
	vpHarnesses["VP_C13_neighbours"] = VP_C13_neighbours
}

const vpHexLower = "0123456789abcdef"
const vpHexUpper = "0123456789ABCDEF"

func vpHex(v int, digits int, upper bool) []byte {
	out := make([]byte, digits)
	for i := digits - 1; i >= 0; i-- {
		if upper {
			out[i] = vpHexUpper[v&15]
		} else {
			out[i] = vpHexLower[v&15]
		}
		v >>= 4
	}
	return out
}

// vpLineBreakLen: length of the line-break sequence starting at t[i], or 0.
func vpLineBreakLen(t []byte, i int) int {
	ch, size := vpDecode(t[i:])
	if vpRefLineBreak(ch) {
		return size
	}
	return 0
}

func vpNamedEscape(c byte) (byte, bool) {
	switch c {
	case '\'':
		return '\'', true
	case '"':
		return '"', true
	case '\\':
		return '\\', true
	case '\n':
		return 'n', true
	case '\r':
		return 'r', true
	case '\t':
		return 't', true
	case '\b':
		return 'b', true
	case '\f':
		return 'f', true
	case '\v':
		return 'v', true
	case 0:
		return '0', true
	}
	return 0, false
}

// vpEscape is the reference escaper: it quotes text t with quote q, choosing
// among the equivalent escape forms by symbolic choice.
func vpEscape(t []byte, q byte) []byte {
	out := []byte{q}
	for i := 0; i < len(t); {
		c := t[i]
		ch, size := vpDecode(t[i:])
		mustEscape := c == q || c == '\\' || vpRefLineBreak(ch)
		upper := vpBool("upper")
		// forms: 0 verbatim, 1 named, 2 \xHH, 3 \uHHHH
		form := vpChoice("form", 4)
		switch form {
		case 0:
			vpAssume(!mustEscape)
			out = append(out, c)
			i++
		case 1:
			e, ok := vpNamedEscape(c)
			vpAssume(ok)
			// \0 followed by a digit would still be \0 here (no octal escapes), fine
			out = append(out, '\\', e)
			i++
		case 2:
			vpAssume(ch != 0xFFFD || size == 3)
			vpAssume(ch <= 0xFF)
			out = append(out, '\\', 'x')
			out = append(out, vpHex(int(ch), 2, upper)...)
			i += size
		case 3:
			vpAssume(ch != 0xFFFD || size == 3)
			vpAssume(ch <= 0xFFFF)
			out = append(out, '\\', 'u')
			out = append(out, vpHex(int(ch), 4, upper)...)
			i += size
		}
	}
	return append(out, q)
}

func vpQuoteChoice() byte {
	if vpBool("dq") {
		return '"'
	}
	return '\''
}

// C13/roundtrip: escape(t) between quotes evaluates to exactly t.
func VP_C13_roundtrip() {
	L := vpParam("L")
	n := vpChoice("n", L+1)
	t := vpBytes("t", n)
	q := vpQuoteChoice()
	lit := vpEscape(t, q)
	src, err := ParseSourceCode(lit)
	vpObserve("lit", lit, err != nil)
	vpAssert("C13/roundtrip/accepted", err == nil)
	if err != nil {
		return
	}
	v, rerr := NewRunner().Resolve(context.Background(), src.Expression)
	vpAssert("C13/roundtrip/evaluates", rerr == nil)
	s, ok := v.(string)
	vpAssert("C13/roundtrip/is-string", ok)
	if ok {
		vpObserve("value", s)
		vpAssert("C13/roundtrip/equal", s == string(t))
	}
	vpReach("C13/roundtrip/done")
}

// C13/open: a literal left open at a line break or at the end of input is a syntax error.
func VP_C13_open() {
	L := vpParam("L")
	n := vpChoice("n", L+1)
	t := vpBytes("t", n)
	q := vpQuoteChoice()
	// body without the quote character and without backslashes (so that nothing closes or continues it)
	for i := range t {
		vpAssume(t[i] != q && t[i] != '\\')
	}
	lit := append([]byte{q}, t...)
	// optionally a complete escape sequence as the last thing before the end / the line break
	escs := []string{"", "\\n", "\\\\", "\\'", "\\\"", "\\x41", "\\u0041", "\\0", "\\t"}
	lit = append(lit, escs[vpChoice("esc", len(escs))]...)
	mode := vpChoice("mode", 2)
	if mode == 1 {
		// open at a line break: break, then a closing quote on the next line
		br := vpChoice("br", 5)
		switch br {
		case 0:
			lit = append(lit, '\n')
		case 1:
			lit = append(lit, '\r')
		case 2:
			lit = append(lit, 0xE2, 0x80, 0xA8)
		case 3:
			lit = append(lit, 0xE2, 0x80, 0xA9)
		case 4:
			lit = append(lit, 0xC2, 0x85)
		}
		lit = append(lit, q)
	}
	_, err := ParseSourceCode(lit)
	vpObserve("lit", lit, err != nil)
	if mode == 0 {
		vpAssert("C13/open/end-of-input-is-error", err != nil)
	} else {
		vpAssert("C13/open/line-break-is-error", err != nil)
	}
	vpReach("C13/open/done")
}

// C13/neighbours: a literal keeps its text when other literals with escapes stand
// before and after it in the same formula: [ 'a\tb', LIT, "c\\d\x41" ].
func VP_C13_neighbours() {
	L := vpParam("L")
	n := vpChoice("n", L+1)
	t := vpBytes("t", n)
	q := vpQuoteChoice()
	lit := vpEscape(t, q)
	src := append(append([]byte("['a\\tb', "), lit...), []byte(", \"c\\\\d\\x41\", 'plain']")...)
	code, err := ParseSourceCode(src)
	vpObserve("src", src, err != nil)
	vpAssert("C13/neighbours/accepted", err == nil)
	if err != nil {
		return
	}
	v, rerr := NewRunner().Resolve(context.Background(), code.Expression)
	arr, ok := v.([]interface{})
	vpAssert("C13/neighbours/evaluates", rerr == nil && ok && len(arr) == 4)
	if rerr != nil || !ok || len(arr) != 4 {
		return
	}
	a, _ := arr[0].(string)
	m, _ := arr[1].(string)
	c, _ := arr[2].(string)
	p, _ := arr[3].(string)
	vpAssert("C13/neighbours/middle-literal-equal", m == string(t))
	vpAssert("C13/neighbours/other-literals-keep-their-text", a == "a\tb" && c == "c\\dA" && p == "plain")
	vpReach("C13/neighbours/done")
}
