package formula

func init() {
	vpHarnesses["VP_C14_spacing"] = VP_C14_spacing
}

// C14/spacing (byte level): inserting a space, a tab or a line break between
// two tokens never changes the parse, except that a line break may not precede
// `.`, `!.` or a call's `(`. Every text of L symbolic bytes over a
// parser-relevant alphabet; the token boundaries come from the reference
// tokenizer; the insertion point and the inserted separator are symbolic.
func VP_C14_spacing() {
	L := vpParam("L")
	text := vpBytes("t", L)
	for _, c := range text {
		ok := false
		for _, a := range []byte("a1.(),+!?: ") {
			if c == a {
				ok = true
			}
		}
		vpAssume(ok)
	}
	toks, cut := vpRefTokenize(text)
	if cut {
		vpReach("C14/spacing/cut")
		return
	}
	k := vpChoice("at", len(toks))
	seps := []string{" ", "\t", "\n", "\r\n", " ", " ", " \n "}
	si := vpChoice("sep", len(seps))
	isBreak := si == 2 || si == 3 || si == 4 || si == 6
	if isBreak && (toks[k].kind == SK_Dot || toks[k].kind == SK_ExclamationDot || toks[k].kind == SK_OpenParen) {
		vpReach("C14/spacing/excepted")
		return
	}
	at := toks[k].start
	mod := append(append(append([]byte{}, text[:at]...), seps[si]...), text[at:]...)
	a, errA := ParseSourceCode(text)
	b, errB := ParseSourceCode(mod)
	vpObserve("spacing", text, mod, errA != nil, errB != nil)
	if errA == nil {
		vpAssert("C14/spacing/still-accepted", errB == nil)
		if errB == nil {
			vpAssert("C14/spacing/same-tree", a != nil && b != nil && vpSameImplTree(a.Expression, b.Expression))
		}
		vpReach("C14/spacing/accepted")
	} else {
		// spacing between tokens cannot repair a rejected text either
		vpAssert("C14/spacing/still-rejected", errB != nil)
		vpReach("C14/spacing/rejected")
	}
}

func init() {
	vpHarnesses["VP_C14_identparts"] = VP_C14_identparts
}

// C14/identparts: identifiers continue over every identifier-PART character,
// also those that cannot START an identifier (combining marks, non-ASCII
// digits, ZWNJ/ZWJ, connector punctuation), and stop at characters that are
// neither: a CONCRETE POOL of code points between an identifier start and a
// tail, against the reference tokenizer (3..7 bytes: beyond the symbolic bound).
func VP_C14_identparts() {
	cps := []rune{0x0301, 0x0663, 0x200C, 0x200D, 0xFF11, 0x0903, 0x203F, 0x00E9, 0x4E2D, 0x0660, 0x0483, 0x0E31, 0x00B7, 0x00D7, 0x2028, 0x00A0, 0x3000, 0x2014, '1', '_', '$', '-', 0x1D7CE}
	first := []string{"a", "é", "$", "_", "中"}[vpChoice("first", 5)]
	cp := cps[vpChoice("cp", len(cps))]
	tail := []string{"", "b", "1", "́"}[vpChoice("tail", 4)]
	text := []byte(first + string(cp) + tail)
	L := len(text)
	want, cut := vpRefTokenize(text)
	s := CreateScanner(text, nil)
	same := true
	for _, w := range want {
		k := s.Scan()
		if k != w.kind || s.GetTokenPos() != w.start || s.GetTextPos() != w.end || s.HasPrecedingLineBreak() != w.lb {
			same = false
			break
		}
	}
	vpObserve("identparts", len(want), cut)
	vpAssert("C14/identparts/longest-match-kinds-and-extents", same)
	if !cut {
		vpAssert("C14/identparts/ends-at-end-of-input", s.GetTextPos() == L || !same)
	}
	if IsIdentifierPart(cp) {
		// one identifier token up to (at least) the end of cp
		vpAssert("C14/identparts/part-continues-the-identifier", len(want) > 0 && want[0].kind == SK_Identifier && want[0].end >= len(first)+len(string(cp)))
	}
	vpReach("C14/identparts/done")
}
