package formula

func init() {
	vpHarnesses["VP_C14_spacing"] = VP_C14_spacing
}

// C14/spacing (byte level): inserting a space, a tab or a line break between
// two tokens never changes the parse, except that a line break may not precede
// `.`, `!.` or a call's `(`. Every text of L symbolic bytes over a
// parser-relevant alphabet; the token boundaries come from the reference
// tokenizer; the insertion point and the inserted separator are symbolic.
func VP_C14_spacing() {
	L := vpParam("L")
	text := vpBytes("t", L)
	for _, c := range text {
		ok := false
		for _, a := range []byte("a1.(),+!?: ") {
			if c == a {
				ok = true
			}
		}
		vpAssume(ok)
	}
	toks, cut := vpRefTokenize(text)
	if cut {
		vpReach("C14/spacing/cut")
		return
	}
	k := vpChoice("at", len(toks))
	seps := []string{" ", "\t", "\n", "\r\n", " ", " ", " \n "}
	si := vpChoice("sep", len(seps))
	isBreak := si == 2 || si == 3 || si == 4 || si == 6
	if isBreak && (toks[k].kind == SK_Dot || toks[k].kind == SK_ExclamationDot || toks[k].kind == SK_OpenParen) {
		vpReach("C14/spacing/excepted")
		return
	}
	at := toks[k].start
	mod := append(append(append([]byte{}, text[:at]...), seps[si]...), text[at:]...)
	a, errA := ParseSourceCode(text)
	b, errB := ParseSourceCode(mod)
	vpObserve("spacing", text, mod, errA != nil, errB != nil)
	if errA == nil {
		vpAssert("C14/spacing/still-accepted", errB == nil)
		if errB == nil {
			vpAssert("C14/spacing/same-tree", a != nil && b != nil && vpSameImplTree(a.Expression, b.Expression))
		}
		vpReach("C14/spacing/accepted")
	} else {
		// spacing between tokens cannot repair a rejected text either
		vpAssert("C14/spacing/still-rejected", errB != nil)
		vpReach("C14/spacing/rejected")
	}
}
