package formula

func init() {
	vpHarnesses["VP_C15_linecol"] = VP_C15_linecol
	vpHarnesses["VP_C15_binsearch"] = VP_C15_binsearch
}

// vpBreakAt reports whether one of the six line-break forms of the statement
// (LF, CR, CRLF, U+2028, U+2029, U+0085) starts at text[i], and its length.
func vpBreakAt(text []byte, i int) (bool, int) {
	c := text[i]
	if c == '\n' {
		return true, 1
	}
	if c == '\r' {
		if i+1 < len(text) && text[i+1] == '\n' {
			return true, 2
		}
		return true, 1
	}
	if c == 0xC2 && i+1 < len(text) && text[i+1] == 0x85 {
		return true, 2
	}
	if c == 0xE2 && i+2 < len(text) && text[i+1] == 0x80 && (text[i+2] == 0xA8 || text[i+2] == 0xA9) {
		return true, 3
	}
	return false, 1
}

// vpLineCol is the direct count: the 0-based line of offset off is the number
// of line breaks that end at or before off; the column is the byte distance
// to the end of the last such break.
func vpLineCol(text []byte, off int) (line, col int) {
	start := 0
	for i := 0; i < len(text); {
		b, n := vpBreakAt(text, i)
		if b && i+n <= off {
			line++
			start = i + n
		}
		i += n
	}
	return line, off - start
}

// C15/linecol: offset-to-line/column helpers agree with a direct count for
// every text of L symbolic bytes and every offset.
func VP_C15_linecol() {
	L := vpParam("L")
	text := vpBytes("t", L)
	off := vpChoice("off", L+1)
	wl, wc := vpLineCol(text, off)
	p := PositionToLineAndCharacter(text, off)
	vpObserve("pos", p.Line, p.Column)
	vpAssert("C15/linecol/line", p.Line == wl)
	vpAssert("C15/linecol/column", p.Column == wc)
	// the cached variant used by FormatDiagnostic
	src := &SourceCode{Text: text}
	q := GetFileLineAndCharacterFromPosition(src, off)
	vpAssert("C15/linecol/cached-agrees", q.Line == p.Line && q.Column == p.Column)
	vpReach("C15/linecol/done")
}

// C15/binsearch: BinarySearch on strictly increasing arrays vs its specification.
func VP_C15_binsearch() {
	N := vpParam("N")
	n := vpChoice("n", N+1)
	arr := make([]int, n)
	for i := range arr {
		arr[i] = vpInt("a")
		if i > 0 {
			vpAssume(arr[i] > arr[i-1])
		}
	}
	v := vpInt("v")
	r := BinarySearch(arr, v)
	if r >= 0 {
		vpAssert("C15/binsearch/found-index-valid", r < n)
		if r < n {
			vpAssert("C15/binsearch/found-equal", arr[r] == v)
		}
	} else {
		ins := ^r
		vpAssert("C15/binsearch/ins-range", ins >= 0 && ins <= n)
		if ins >= 0 && ins <= n {
			for i := 0; i < n; i++ {
				if i < ins {
					vpAssert("C15/binsearch/left-smaller", arr[i] < v)
				} else {
					vpAssert("C15/binsearch/right-greater", arr[i] > v)
				}
			}
		}
	}
	vpReach("C15/binsearch/done")
}
