package formula

func init() {
	vpHarnesses["VP_C15_tokranges"] = VP_C15_tokranges
}

// vpTokRange checks node ranges in token units (stub scanner: token i occupies
// [i,i+1), trivia has width 0): leaves and names cover exactly their token,
// children lie inside their parent in source order.
func vpTokRange(n Expression, lo, hi int, ok *bool) {
	p, e := n.Pos(), n.End()
	if !(lo <= p && p <= e && e <= hi) {
		*ok = false
		return
	}
	switch x := n.(type) {
	case *Identifier, *LiteralExpression:
		if e-p != 1 {
			*ok = false
		}
	case *SelectorExpression:
		if x.Name == nil || x.Name.End()-x.Name.Pos() != 1 || x.Name.End() != e {
			*ok = false
		}
	}
	kids, _ := vpKids(n)
	prev := p
	for _, k := range kids {
		if k == nil {
			*ok = false
			continue
		}
		if k.Pos() < prev {
			*ok = false
		}
		vpTokRange(k, p, e, ok)
		prev = k.End()
	}
}

// C15/tokranges: node ranges nest in source order for every accepted sequence
// of K symbolic tokens (engine: stub scanner; natively the rendered text is
// parsed and the byte-level nesting is checked).
func VP_C15_tokranges() {
	K := vpParam("K")
	t := vpSymTokens(K)
	src, err := vpParseTokens(t, true)
	if err != nil || src == nil {
		vpReach("C15/tokranges/rejected")
		return
	}
	vpReach("C15/tokranges/accepted")
	ok := true
	if vpSymbolic() {
		vpTokRange(src.Expression, 0, K, &ok)
	} else {
		c := &vpRangeCheck{text: src.Text, within: true, nested: true, ordered: true, reparseOK: true, reparseSame: true}
		c.walk(src.Expression, 0, len(src.Text))
		ok = c.within && c.nested && c.ordered && c.reparseOK && c.reparseSame && vpNamesCoverText(src.Expression, src.Text)
	}
	vpAssert("C15/tokranges/ranges-nest-and-cover-their-tokens", ok)
}

// vpNamesCoverText: the range of every identifier / member name contains its text.
func vpNamesCoverText(n Expression, text []byte) bool {
	covers := func(id *Identifier) bool {
		if id == nil || id.Pos() < 0 || id.End() > len(text) || id.Pos() > id.End() {
			return false
		}
		seg := string(text[id.Pos():id.End()])
		for len(seg) > 0 && (seg[0] == ' ' || seg[0] == '\n') {
			seg = seg[1:]
		}
		return seg == id.Value
	}
	switch x := n.(type) {
	case *Identifier:
		return covers(x)
	case *SelectorExpression:
		if !covers(x.Name) {
			return false
		}
	}
	kids, _ := vpKids(n)
	for _, k := range kids {
		if k != nil && !vpNamesCoverText(k, text) {
			return false
		}
	}
	return true
}
