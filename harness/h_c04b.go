package formula

import (
	"context"

	"github.com/ericlagergren/decimal"
)

func init() {
	vpHarnesses["VP_C04_arith"] = VP_C04_arith
}

// vpEvalArith evaluates [a OP b] with the real runner (the array element keeps
// the *decimal.Big) and returns the number.
func vpEvalArith(op SyntaxKind, a, b *decimal.Big) (*decimal.Big, bool) {
	r := NewRunner()
	r.SetThis(map[string]interface{}{"a": a, "b": b})
	v, err := r.Resolve(context.Background(), &ArrayLiteralExpression{Elements: vpList(vpBin(op, vpId("a"), vpId("b")))})
	if err != nil {
		return nil, false
	}
	arr, ok := v.([]interface{})
	if !ok || len(arr) != 1 {
		return nil, false
	}
	x, ok := arr[0].(*decimal.Big)
	return x, ok
}

// vpBigEqSigned: x == v * 10^exp exactly for a signed integer v (|v| < 2^62).
func vpBigEqSigned(x *decimal.Big, v int64, exp int) bool {
	if v < 0 {
		return vpBigEq(x, true, uint64(-v), exp)
	}
	return vpBigEq(x, false, uint64(v), exp)
}

// C04/arith: + - * return exactly the mathematical result (operands small
// enough that it has at most 34 digits); % the exact remainder of truncated
// division with the sign of the dividend.
func VP_C04_arith() {
	CB, E := vpParam("CB"), vpParam("E")
	opi := vpParam("OP")
	a, b := vpSymNum("a", CB, E), vpNum{}
	if opi == 3 {
		// symbolic-by-symbolic division does not finish in the solver: the divisor's
		// coefficient is case-split over all values below DB, the dividend stays symbolic
		b.coef = uint64(1 + vpChoice("bc", vpParam("DB")-1))
		b.exp = vpChoice("be", 2*E+1) - E
		b.neg = vpBool("bn")
	} else {
		b = vpSymNum("b", CB, E)
	}
	m := a.exp
	if b.exp < m {
		m = b.exp
	}
	// operands as signed integers at the common exponent m
	A := int64(a.coef) * vpPow10[a.exp-m]
	B := int64(b.coef) * vpPow10[b.exp-m]
	if a.neg {
		A = -A
	}
	if b.neg {
		B = -B
	}
	ba, bb := a.big(), b.big()
	op := []SyntaxKind{SK_Plus, SK_Minus, SK_Asterisk, SK_Percent}[opi]
	if op == SK_Percent {
		vpAssume(b.coef != 0)
	}
	r, ok := vpEvalArith(op, ba, bb)
	vpAssert("C04/arith/yields-a-number", ok && r != nil)
	if !ok || r == nil {
		return
	}
	vpAssert("C04/arith/operands-not-mutated", vpBigEq(ba, a.neg, a.coef, a.exp) && vpBigEq(bb, b.neg, b.coef, b.exp))
	vpAssert("C04/arith/result-context-is-34-digits-half-even", r.Context.Precision == 34 && r.Context.RoundingMode == decimal.ToNearestEven)
	switch op {
	case SK_Plus:
		vpAssert("C04/arith/add-exact", vpBigEqSigned(r, A+B, m))
	case SK_Minus:
		vpAssert("C04/arith/sub-exact", vpBigEqSigned(r, A-B, m))
	case SK_Asterisk:
		// coefficients below 2^32: the product fits 64 bits (incl. [2^63, 2^64))
		vpAssert("C04/arith/mul-exact", vpBigEq(r, a.neg != b.neg, a.coef*b.coef, a.exp+b.exp))
	case SK_Percent:
		// truncated division: A = q*B + rem, |rem| < |B|, sign(rem) = sign(A)
		rem := A % B
		vpAssert("C04/arith/rem-exact-sign-of-dividend", vpBigEqSigned(r, rem, m))
	}
	vpReach("C04/arith/done")
}
