package formula

func init() {
	vpHarnesses["VP_C14_classes"] = VP_C14_classes
	vpHarnesses["VP_C14_tables"] = VP_C14_tables
	vpHarnesses["VP_C14_scanstep"] = VP_C14_scanstep
}

func vpLinear(ch rune, tab []rune) bool {
	for i := 0; i+1 < len(tab); i += 2 {
		if tab[i] <= ch && ch <= tab[i+1] {
			return true
		}
	}
	return false
}

// reference classes written from the statement (ES whitespace / line-break sets)
func vpRefLineBreak(ch rune) bool {
	return ch == '\n' || ch == '\r' || ch == 0x2028 || ch == 0x2029 || ch == 0x0085
}

// vpRefWhiteMust: code points every edition of the ES white-space set contains.
func vpRefWhiteMust(ch rune) bool {
	return ch == '\t' || ch == '\v' || ch == '\f' || ch == ' ' || ch == 0xA0 || ch == 0xFEFF ||
		ch == 0x1680 || (ch >= 0x2000 && ch <= 0x200A) || ch == 0x202F || ch == 0x205F || ch == 0x3000
}

// vpRefWhiteMay: code points on which editions disagree (don't-care).
func vpRefWhiteMay(ch rune) bool { return ch == 0x200B || ch == 0x180E }

// C14/tables: the two range tables are sorted, disjoint, well-formed pairs (concrete data).
func VP_C14_tables() {
	for k, tab := range [][]rune{unicodeES5IdentifierStart, unicodeES5IdentifierPart} {
		ok := len(tab)%2 == 0 && len(tab) > 0
		for i := 0; ok && i+1 < len(tab); i += 2 {
			if tab[i] > tab[i+1] {
				ok = false
			}
			if i > 0 && tab[i] <= tab[i-1] {
				ok = false
			}
		}
		if k == 0 {
			vpAssert("C14/tables/start-sorted-disjoint", ok)
		} else {
			vpAssert("C14/tables/part-sorted-disjoint", ok)
		}
	}
	vpReach("C14/tables/done")
}

// C14/classes: for every code point, table lookup == linear membership and
// the character classes match the statement.
func VP_C14_classes() {
	ch := vpRune("ch")
	vpAssume(ch >= 0 && ch <= 0x10FFFF)
	which := vpChoice("which", 5)
	switch which {
	case 0:
		vpAssert("C14/classes/lookup-start==linear", LookupInUnicodeMap(ch, unicodeES5IdentifierStart) == vpLinear(ch, unicodeES5IdentifierStart))
	case 1:
		vpAssert("C14/classes/lookup-part==linear", LookupInUnicodeMap(ch, unicodeES5IdentifierPart) == vpLinear(ch, unicodeES5IdentifierPart))
	case 2:
		s, p := IsIdentifierStart(ch), IsIdentifierPart(ch)
		vpAssert("C14/classes/start=>part", !s || p)
		if ch >= '0' && ch <= '9' {
			vpAssert("C14/classes/digit-is-part", p)
			vpAssert("C14/classes/digit-not-start", !s)
		}
		if ch < 0x80 {
			wantS := ch >= 'A' && ch <= 'Z' || ch >= 'a' && ch <= 'z' || ch == '$' || ch == '_'
			vpAssert("C14/classes/ascii-start-exact", s == wantS)
			vpAssert("C14/classes/ascii-part-exact", p == (wantS || ch >= '0' && ch <= '9'))
		}
	case 3:
		lb := IsLineBreak(ch)
		vpAssert("C14/classes/linebreak-set", lb == vpRefLineBreak(ch))
		ws := IsWhiteSpace(ch)
		if vpRefWhiteMust(ch) {
			vpAssert("C14/classes/whitespace-contains", ws)
		} else if !vpRefWhiteMay(ch) {
			vpAssert("C14/classes/whitespace-only", !ws)
		}
		vpAssert("C14/classes/ws-lb-disjoint", !(ws && lb))
	case 4:
		// separators never collide with identifier characters
		if IsWhiteSpace(ch) || IsLineBreak(ch) {
			vpAssert("C14/classes/separator-not-identifier", !IsIdentifierPart(ch) && !IsIdentifierStart(ch))
		}
	}
	vpReach("C14/classes/done")
}

// vpInScanImage: token kinds the real scanner can produce (the contract the
// token-level parser harnesses rely on).
func vpInScanImage(k SyntaxKind) bool {
	if k == SK_Count {
		return false
	}
	if k >= SK_PlusEquals && k <= SK_CaretEquals {
		return false
	}
	return k >= SK_Unknown && k < SK_Count
}

// C14/scanstep: one Scan() from an arbitrary position of an arbitrary text.
func VP_C14_scanstep() {
	L := vpParam("L")
	text := vpBytes("t", L)
	if vpParam("ESC") == 1 {
		// escape-sequence alphabet (longer texts at the same cost): quotes, backslash, the escape
		// letters, hex and non-hex letters and digits, braces
		for _, c := range text {
			ok := false
			for _, a := range []byte("'\"\\xu0a9fgzG{}_n") {
				if c == a {
					ok = true
				}
			}
			vpAssume(ok)
		}
	}
	p := vpChoice("p", L+1)
	errOK := true
	s := CreateScanner(text, func(m *DiagnosticMessage, pos int, length int) {
		if m == nil || length < 0 {
			errOK = false
		}
	})
	s.SetTextPos(p)
	tok := s.Scan()
	start, tpos, end := s.GetStartPos(), s.GetTokenPos(), s.GetTextPos()
	vpObserve("scan", int(tok), start, tpos, end)
	vpAssert("C14/scanstep/starts-where-previous-ended", start == p)
	vpAssert("C14/scanstep/ordered", start <= tpos && tpos <= end && end <= L)
	vpAssert("C14/scanstep/returns-current-token", tok == s.GetToken())
	if tok == SK_EndOfFile {
		vpAssert("C14/scanstep/eof-at-end", tpos == L && end == L)
	} else {
		vpAssert("C14/scanstep/progress", end > tpos)
	}
	vpAssert("C14/scanstep/kind-in-image", vpInScanImage(tok))
	vpAssert("C14/scanstep/error-callback-wellformed", errOK)
	// only whitespace / line breaks between start and the token text
	if start <= tpos && tpos <= L {
		sawBreak := false
		onlyTrivia := true
		for i := start; i < tpos; {
			ch, size := vpDecode(text[i:])
			if vpRefLineBreak(ch) {
				sawBreak = true
			} else if !(vpRefWhiteMust(ch) || vpRefWhiteMay(ch)) {
				onlyTrivia = false
			}
			i += size
		}
		vpAssert("C14/scanstep/trivia-is-whitespace", onlyTrivia)
		vpAssert("C14/scanstep/linebreak-flag", s.HasPrecedingLineBreak() == sawBreak)
	}
	if tok == SK_Identifier {
		vpAssert("C14/scanstep/identifier-nonempty", len(s.GetTokenValue()) > 0)
	}
	if tok.IsKeyword() {
		vpAssert("C14/scanstep/keyword-text", s.GetTokenValue() == tokens[tok] && s.GetTokenText() == tokens[tok])
	}
	vpReach("C14/scanstep/done")
}

// vpDecode: independent UTF-8 decoder (first rune and its size; invalid => U+FFFD, 1).
func vpDecode(p []byte) (rune, int) {
	if len(p) == 0 {
		return 0xFFFD, 0
	}
	b0 := p[0]
	if b0 < 0x80 {
		return rune(b0), 1
	}
	cont := func(b byte) bool { return b >= 0x80 && b <= 0xBF }
	switch {
	case b0 >= 0xC2 && b0 <= 0xDF:
		if len(p) >= 2 && cont(p[1]) {
			return rune(b0&0x1F)<<6 | rune(p[1]&0x3F), 2
		}
	case b0 >= 0xE0 && b0 <= 0xEF:
		if len(p) >= 3 && cont(p[1]) && cont(p[2]) {
			r := rune(b0&0x0F)<<12 | rune(p[1]&0x3F)<<6 | rune(p[2]&0x3F)
			if r >= 0x800 && !(r >= 0xD800 && r <= 0xDFFF) {
				return r, 3
			}
		}
	case b0 >= 0xF0 && b0 <= 0xF4:
		if len(p) >= 4 && cont(p[1]) && cont(p[2]) && cont(p[3]) {
			r := rune(b0&0x07)<<18 | rune(p[1]&0x3F)<<12 | rune(p[2]&0x3F)<<6 | rune(p[3]&0x3F)
			if r >= 0x10000 && r <= 0x10FFFF {
				return r, 4
			}
		}
	}
	return 0xFFFD, 1
}
