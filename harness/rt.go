package formula

// Harness runtime.  The symbolic engine intercepts every vp* primitive by
// name; the bodies below are the *native* implementations used when a
// solver model is replayed against the ordinarily compiled code.

import (
	"fmt"
	"math"
	"strconv"
	"time"
)

type vpVal struct {
	Name string `json:"name"`
	Kind string `json:"kind"`
	Val  string `json:"val"` // decimal uint64 (two's complement / IEEE bits)
}

type vpCase struct {
	ID        string         `json:"id"`
	Harness   string         `json:"harness"`
	Params    map[string]int `json:"params"`
	Values    []vpVal        `json:"values"`
	TimeoutMs int            `json:"timeout_ms"`
	Expected  []string       `json:"expected,omitempty"`
	Note      string         `json:"note,omitempty"`
}

type vpResult struct {
	ID           string   `json:"id"`
	Events       []string `json:"events"`
	Panic        string   `json:"panic,omitempty"`
	Timeout      bool     `json:"timeout,omitempty"`
	AssumeFailed bool     `json:"assume_failed,omitempty"`
	Exhausted    bool     `json:"exhausted,omitempty"`
	NameMismatch string   `json:"name_mismatch,omitempty"`
}

type vpAssumeFailure struct{}

var vpCur struct {
	c   *vpCase
	pos int
	res *vpResult
}

var vpHarnesses = map[string]func(){}

func vpNext(name, kind string) uint64 {
	c := vpCur.c
	if c == nil {
		panic("vp primitive used outside a replay")
	}
	if vpCur.pos >= len(c.Values) {
		vpCur.res.Exhausted = true
		return 0
	}
	v := c.Values[vpCur.pos]
	vpCur.pos++
	if v.Name != name && vpCur.res.NameMismatch == "" {
		vpCur.res.NameMismatch = fmt.Sprintf("value #%d: harness asked for %q, replay file has %q", vpCur.pos-1, name, v.Name)
	}
	u, _ := strconv.ParseUint(v.Val, 10, 64)
	return u
}

func vpByte(name string) byte     { return byte(vpNext(name, "byte")) }
func vpBool(name string) bool     { return vpNext(name, "bool") != 0 }
func vpInt(name string) int       { return int(vpNext(name, "int")) }
func vpInt64(name string) int64   { return int64(vpNext(name, "int64")) }
func vpUint64(name string) uint64 { return vpNext(name, "uint64") }
func vpRune(name string) rune     { return rune(uint32(vpNext(name, "rune"))) }

// vpBits returns a symbolic value of n bits, zero-extended to 64 (the high
// bits are literal zeros for the solver, which keeps multipliers narrow).
func vpBits(name string, n int) uint64 { return vpNext(name, "bits") & (^uint64(0) >> uint(64-n)) }
func vpFloat64(name string) float64    { return math.Float64frombits(vpNext(name, "float64")) }

func vpParam(name string) int {
	v, ok := vpCur.c.Params[name]
	if !ok {
		panic("harness parameter " + name + " missing from the replay file")
	}
	return v
}

// vpSymbolic reports whether the harness runs inside the symbolic engine.
func vpSymbolic() bool { return false }

// vpNativeOnly is an assertion that only the native replay can decide (it needs something
// the engine has no model of, e.g. the time-zone database). The engine ignores it; natively a
// failure is recorded as a failed assertion of that label, a success leaves no trace (so that
// the traces of engine and native run stay comparable).
func vpNativeOnly(label string, cond bool) {
	if !cond {
		vpAssert(label, false)
	}
}

// vpReverseMapOrder: in the engine maps are iterated in the opposite order while on; natively
// Go randomises the order anyway.
func vpReverseMapOrder(on bool) {}

// vpSteps: in the engine the number of SSA instructions executed so far; natively the
// elapsed time in nanoseconds (used only as a coarse cost measure).
func vpSteps() int64 { return time.Now().UnixNano() }

func vpAssume(c bool) {
	if !c {
		panic(vpAssumeFailure{})
	}
}

func vpAssert(label string, c bool) {
	vpCur.res.Events = append(vpCur.res.Events, fmt.Sprintf("A:%s:%v", label, c))
}

func vpReach(label string) { vpCur.res.Events = append(vpCur.res.Events, "R:"+label) }

func vpObserve(label string, vals ...interface{}) {
	s := "O:" + label + ":"
	for i, v := range vals {
		if i > 0 {
			s += ","
		}
		s += vpRender(v)
	}
	vpCur.res.Events = append(vpCur.res.Events, s)
}

func vpRender(v interface{}) string {
	switch x := v.(type) {
	case nil:
		return "nil"
	case string:
		return fmt.Sprintf("%q", x)
	case []byte:
		return fmt.Sprintf("%q", string(x))
	case float64:
		if math.IsNaN(x) {
			return "NaN"
		}
		return fmt.Sprint(x)
	case bool, int, int8, int16, int32, int64, uint, uint8, uint16, uint32, uint64, uintptr:
		return fmt.Sprint(x)
	}
	return fmt.Sprintf("<%T>", v)
}

// vpUF is an uninterpreted function over integers (engine only: an SMT
// declare-fun); natively it is never reached because nothing is replaced.
func vpUF(name string, args ...int64) int64 { panic("vpUF reached natively") }

// vpReplace asks the engine to run fn instead of the named function; natively
// nothing is replaced (the real code runs) and false is returned.
func vpReplace(name string, fn interface{}) bool { return false }

// vpCut ends the current symbolic path without a verdict (engine only).
func vpCut(why string) {}

// vpConcretize forks over the feasible values of n (engine); natively the identity.
func vpConcretize(n int) int { return n }

// Write-monitor primitives (engine only; natively no-ops).
func vpFreeze(root string, v interface{}) {}
func vpFreezeGlobals()                    {}
func vpAllowDollarKeys(root string)       {}
func vpWrites() int                       { return 0 }

// vpChoice returns a value in [0,n) chosen by the solver (one path per value).
func vpChoice(name string, n int) int {
	v := vpInt(name)
	vpAssume(v >= 0 && v < n)
	for i := 0; i < n-1; i++ {
		if v == i {
			return i
		}
	}
	return n - 1
}

// vpBytes returns n symbolic bytes.
func vpBytes(name string, n int) []byte {
	b := make([]byte, n)
	for i := range b {
		b[i] = vpByte(name + strconv.Itoa(i))
	}
	return b
}

func vpRunCase(c *vpCase) (res *vpResult) {
	res = &vpResult{ID: c.ID}
	vpCur.c, vpCur.pos, vpCur.res = c, 0, res
	h := vpHarnesses[c.Harness]
	if h == nil {
		res.Panic = "unknown harness " + c.Harness
		return
	}
	defer func() {
		if r := recover(); r != nil {
			if _, ok := r.(vpAssumeFailure); ok {
				res.AssumeFailed = true
				return
			}
			res.Panic = fmt.Sprint(r)
			if res.Panic == "" {
				res.Panic = "panic"
			}
			res.Events = append(res.Events, "PANIC")
		}
	}()
	h()
	return
}
