package formula

import (
	"context"
	"fmt"
	"time"

	"github.com/ericlagergren/decimal"
)

func init() {
	vpHarnesses["VP_smoke_eval"] = VP_smoke_eval
}

type vpPerson struct {
	Name   string
	Age    int
	secret int
}

var vpSmokeFormulas = []string{
	"(1 + 2) * 3", "1.5 - 0.25", "7 % 3", "10 / 4", "a + b", "s + 'x'", "a > b ? 'gt' : 'le'", "!a", "!!s", "-a", "~5", "5 & 3", "5 | 3", "5 ^ 3",
	"a == 1", "a === 1", "s == 'hi'", "null == n", "n === null", "typeof a", "typeof s", "typeof n", "[1, 2, a]", "$x = 3, $x + 1",
	"p.Name", "m.k", "m.missing", "n.x", "this.a", "abs(-3)", "ceil(1.2)", "floor(-1.2)", "max(1, 5, 3)", "min(4, 2)", "toInt('12.7')", "toFloat('1.5')", "toString(12)",
	"startWith('hello', 'he')", "endWith('hello', 'lo')", "contains('hello', 'ell')", "find('hello', 'l')", "left('hello', 2)", "right('hello', 3)", "len('hello')",
	"lower('HeLLo')", "upper('hello')", "lpad('7', '0', 3)", "rpad('7', '0', 3)", "mid('hello', 1, 3)", "replace('aXbX', 'X', '-')", "trim('  x  ')", "join(['a','b'], '-')",
	"includes(['a','b'], 'b')", "finite(a)", "round(2.5)", "roundBank(2.5)", "sqrt(16)", "year(d)", "month(d)", "day(d)", "hour(d)", "weekDay(d)", "millSecond(d)",
	"year(date(2024, 2, 30))", "day(addDate(d, 0, 0, 40))", "timeFormat(d, '2006-01-02')", "hostAdd(2, 3)", "hostCat('a', 1, 'b')", "hostErr(1)", "regexp('abc', 'b+')",
	"a ?? 5", "n ?? 5", "a && s", "n || s", "1 < 2", "'a' < 'b'", "1 <= 1", "2 >= 3", "1 != 2", "1 !== 1", "toString(1.50)", "a!.x", "n!.x",
}

// VP_smoke_eval: translator validation - evaluates a fixed pool of formulas
// concretely in the engine; the native replay must observe the same results.
func VP_smoke_eval() {
	ctx := context.Background()
	from := vpParam("FROM")
	to := vpParam("TO")
	for i, f := range vpSmokeFormulas {
		if i < from || i >= to {
			continue
		}
		code, err := ParseSourceCode([]byte(f))
		if err != nil {
			vpObserve("parse-error", f, err.Error())
			continue
		}
		r := NewRunner()
		r.SetThis(map[string]interface{}{
			"a": 3, "b": int64(4), "s": "hi", "n": nil, "f": 2.5,
			"p":       vpPerson{Name: "Ann", Age: 30, secret: 1},
			"m":       map[string]interface{}{"k": "v"},
			"d":       time.Date(2024, time.March, 9, 14, 5, 6, 0, time.UTC),
			"hostAdd": func(x, y int) (int, error) { return x + y, nil },
			"hostCat": func(parts ...string) (string, error) {
				s := ""
				for _, p := range parts {
					s += p
				}
				return s, nil
			},
			"hostErr": func(x *decimal.Big) (int, error) { return 0, fmt.Errorf("boom %v", x) },
		})
		v, err := r.Resolve(ctx, code.Expression)
		if err != nil {
			vpObserve("eval-error", f, err.Error())
			continue
		}
		vpObserve("value", f, fmt.Sprintf("%T", v), vpShow(v))
	}
}

func vpShow(v interface{}) string {
	switch x := v.(type) {
	case nil:
		return "nil"
	case string:
		return x
	case bool:
		if x {
			return "true"
		}
		return "false"
	case float64:
		return fmt.Sprint(x)
	case int:
		return fmt.Sprint(x)
	case time.Time:
		return x.Format(time.RFC3339)
	case []interface{}:
		s := "["
		for i, e := range x {
			if i > 0 {
				s += " "
			}
			s += vpShow(e)
		}
		return s + "]"
	}
	return "?"
}
