package formula

import (
	"context"
	"regexp"
)

func init() {
	vpHarnesses["VP_C17_regexp"] = VP_C17_regexp
}

// C17/regexp: `regexp` agrees with RE2 matching. The matcher cannot run on
// symbolic text (its compiled program depends on the pattern), so this is a
// CONCRETE POOL of 30 patterns x 23 subjects (anchors, classes, repetition,
// alternation, flags, invalid patterns) with hand-checked expectations
// (computed independently, `$` as end of text) and, as a second oracle, the
// regexp package called directly.
func VP_C17_regexp() {
	p := vpRePatterns[vpChoice("pat", len(vpRePatterns))]
	si := vpChoice("subj", len(vpReSubjects))
	s := vpReSubjects[si]
	r := NewRunner()
	r.SetThis(map[string]interface{}{"s": s, "p": p.pat})
	v, err := r.Resolve(context.Background(), &CallExpression{Expression: vpId("regexp"), Arguments: vpList(vpId("s"), vpId("p"))})
	vpObserve("regexp", p.pat, s, v, err != nil)
	if p.want == "E" {
		vpAssert("C17/regexp/invalid-pattern-is-error", err != nil && v == nil)
		vpReach("C17/regexp/done")
		return
	}
	b, ok := v.(bool)
	vpAssert("C17/regexp/yields-boolean", err == nil && ok)
	if err != nil || !ok {
		return
	}
	vpAssert("C17/regexp/agrees-with-RE2-table", b == (p.want[si] == '1'))
	lib, lerr := regexp.MatchString(p.pat, s)
	vpAssert("C17/regexp/agrees-with-regexp-package", lerr == nil && b == lib)
	vpReach("C17/regexp/done")
}

var vpRePatterns = []struct {
	pat  string
	want string // per subject: 1 match, 0 no match; "E": the pattern is invalid
}{
	{"abc", "01111000000000000000000"},
	{"^abc$", "01000000000000000000000"},
	{"^abc", "01011000000000000000000"},
	{"abc$", "01010000000000000000000"},
	{"a.c", "01111000000000000000000"},
	{"a|b", "01111111001101111111000"},
	{"^$", "10000000000000000000000"},
	{"", "11111111111111111111111"},
	{"[0-9]+", "00000000110000000000001"},
	{"^[a-z]+$", "01110111000000101101100"},
	{"a*", "11111111111111111111111"},
	{"(ab)+", "01111100000000000000000"},
	{"\\d{2,3}", "00000000110000000000000"},
	{"^example\\.com$", "00000000001000000000000"},
	{"x?y", "00000000000000000000100"},
	{"(?i)ABC", "01111000000010000000000"},
	{"\\bfoo\\b", "00000000000001000000000"},
	{"a\\.b", "00000000000000010000000"},
	{"^a.*z$", "00000000000000000100000"},
	{"[^a]", "01111101111111111110111"},
	{"(", "E"},
	{"[", "E"},
	{"a{2}", "00000000000000000001000"},
	{"^(a|b)*$", "10000111000000000001000"},
	{"\\s", "00001000000001000010000"},
	{".", "01111111111111111111111"},
	{"^abc\\n$", "00001000000000000000000"},
	{"é", "00000000000000000000010"},
	{"^.$", "00000011000000000000111"},
	{"[[:digit:]]", "00000000110000000000001"},
}

var vpReSubjects = []string{"", "abc", "xabcx", "abcabc", "abc\n", "ab", "a", "b", "123", "12", "example.com", "xexample.com", "ABC", "foo bar", "foobar", "a.b", "axb", "az", "a\nz", "aa", "y", "é", "1"}

func init() {
	vpHarnesses["VP_C17_case"] = VP_C17_case
}

// C17/case: lower / upper map case on text outside ASCII. CONCRETE POOL (the
// Unicode case tables cannot be explored symbolically); expectations written
// by hand from the Unicode simple case mappings.
func VP_C17_case() {
	pool := []struct{ in, lower, upper string }{
		{"É", "é", "É"}, {"école É", "école é", "ÉCOLE É"}, {"ΑΒΓ", "αβγ", "ΑΒΓ"}, {"Привет", "привет", "ПРИВЕТ"}, {"éé", "éé", "ÉÉ"},
		{"Straße", "straße", "STRAßE"}, {"ǅ", "ǆ", "Ǆ"}, {"中文Ab", "中文ab", "中文AB"}, {"Hello", "hello", "HELLO"}, {"", "", ""},
		{"ÀÉÎÕÜ", "àéîõü", "ÀÉÎÕÜ"}, {"ñandú", "ñandú", "ÑANDÚ"}, {"Ωmega", "ωmega", "ΩMEGA"},
	}
	p := pool[vpChoice("s", len(pool))]
	lower, ok1 := vpBuiltin("lower").(func(string) (string, error))
	upper, ok2 := vpBuiltin("upper").(func(string) (string, error))
	vpAssert("C17/case/present", ok1 && ok2)
	if !(ok1 && ok2) {
		return
	}
	l, e1 := lower(p.in)
	u, e2 := upper(p.in)
	vpObserve("case", p.in, l, u)
	vpAssert("C17/case/lower-maps-case", e1 == nil && l == p.lower)
	vpAssert("C17/case/upper-maps-case", e2 == nil && u == p.upper)
	l2, _ := lower(u)
	vpAssert("C17/case/lower-of-upper-is-lower", l2 == p.lower)
	vpReach("C17/case/done")
}
