package formula

import (
	"context"

	"github.com/ericlagergren/decimal"
)

func init() {
	vpHarnesses["VP_C20_runner"] = VP_C20_runner
}

// model: a plain data map (possibly absent) plus a separate key-value store
type vpSkip struct{}

// vpFails: the evaluation must fail with an error.
type vpFails struct{}

// vpHalf{n} is the number n/2 (a fractional local).
type vpHalf struct{ n int }

func vpSameC20(got, want interface{}) bool {
	if h, ok := want.(vpHalf); ok {
		g, ok := got.(*decimal.Big)
		return ok && vpBigEq(g, false, uint64(h.n*5), -1)
	}
	return vpSameRef(got, want)
}

type vpRunnerModel struct {
	this  map[string]interface{}
	has   bool
	store map[string]interface{}
}

var vpC20Keys = []string{"a", "$x", "k"}

// formulas: 0: $x   1: a   2: $x = a   3: $x = 1   4: k   5: [$x, a]   6: ($x = 2, $x)   7: -$x   8: $x = true   9: typeof $x   10: $y = $x   11: $y
func vpC20Formula(i int) Expression {
	switch i {
	case 0:
		return vpId("$x")
	case 1:
		return vpId("a")
	case 2:
		return vpBin(SK_Equals, vpId("$x"), vpId("a"))
	case 3:
		return vpBin(SK_Equals, vpId("$x"), vpNumLit(1))
	case 4:
		return vpId("k")
	case 5:
		return &ArrayLiteralExpression{Elements: vpList(vpId("$x"), vpId("a"))}
	case 7:
		return &PrefixUnaryExpression{Operator: &TokenNode{Token: SK_Minus}, Operand: vpId("$x")}
	case 8:
		return vpBin(SK_Equals, vpId("$x"), vpLit(SK_TrueKeyword, "true"))
	case 9:
		return &TypeOfExpression{Expression: vpId("$x")}
	case 10:
		return vpBin(SK_Equals, vpId("$y"), vpId("$x"))
	case 11:
		return vpId("$y")
	case 12:
		return vpBin(SK_Equals, vpId("$z"), vpLit(SK_NumberLiteral, "2.5"))
	case 13:
		return &CallExpression{Expression: vpId("round"), Arguments: vpList(vpId("$z"))}
	case 14:
		return vpId("$z")
	case 15:
		return vpBin(SK_Equals, vpId("$x"), &CallExpression{Expression: vpId("nofn"), Arguments: vpList()})
	case 16:
		return vpBin(SK_Equals, vpId("$x"), vpLit(SK_NumberLiteral, "9007199254740993"))
	case 17: // nested assignment: $y = $x = 1
		return vpBin(SK_Equals, vpId("$y"), vpBin(SK_Equals, vpId("$x"), vpNumLit(1)))
	}
	return vpBin(SK_Comma, vpBin(SK_Equals, vpId("$x"), vpNumLit(2)), vpId("$x"))
}

func (m *vpRunnerModel) get(name string) interface{} {
	if !m.has {
		return nil
	}
	return m.this[name]
}

func (m *vpRunnerModel) set(name string, v interface{}) {
	if !m.has {
		m.this = map[string]interface{}{}
		m.has = true
	}
	m.this[name] = v
}

func (m *vpRunnerModel) eval(i int) interface{} {
	switch i {
	case 0:
		return m.get("$x")
	case 1:
		return m.get("a")
	case 2:
		v := m.get("a")
		m.set("$x", v)
		return v
	case 3:
		m.set("$x", 1)
		return 1
	case 4:
		return m.get("k")
	case 5:
		return []interface{}{m.get("$x"), m.get("a")}
	case 7:
		if v, ok := m.get("$x").(int); ok {
			return -v
		}
		return vpSkip{} // unary minus on non-numbers: not this property's subject
	case 8:
		m.set("$x", true)
		return true
	case 9:
		switch m.get("$x").(type) {
		case int:
			return "number"
		case bool:
			return "boolean"
		case string:
			return "string"
		}
		return "object"
	case 10:
		v := m.get("$x")
		m.set("$y", v)
		return v
	case 11:
		return m.get("$y")
	case 12:
		m.set("$z", vpHalf{5})
		return vpHalf{5}
	case 13:
		if _, ok := m.get("$z").(vpHalf); ok {
			return 3
		}
		return vpSkip{} // round of a missing local: not this property's subject
	case 14:
		return m.get("$z")
	case 15:
		return vpFails{} // calling a missing name is an error; the state is unchanged
	case 16:
		m.set("$x", 9007199254740993) // a number that does not survive binary floating point
		return 9007199254740993
	case 17:
		m.set("$x", 1)
		m.set("$y", 1)
		return 1
	}
	m.set("$x", 2)
	return 2
}

// C20/runner: every evaluation result and every Get equals the two-map model.
func VP_C20_runner() {
	N := vpParam("N")
	ctx := context.Background()
	r := NewRunner()
	m := &vpRunnerModel{store: map[string]interface{}{}}
	// a map object the caller keeps and may hand to SetThis again (the model keeps its twin)
	kept := map[string]interface{}{"a": 0}
	keptModel := map[string]interface{}{"a": 0}
	keptEmpty := map[string]interface{}{}
	keptEmptyModel := map[string]interface{}{}
	switch vpChoice("startWithMap", 3) {
	case 1:
		r.SetThis(kept)
		m.this, m.has = keptModel, true
	case 2: // an empty, non-nil map
		r.SetThis(keptEmpty)
		m.this, m.has = keptEmptyModel, true
	}
	for step := 0; step < N; step++ {
		switch vpChoice("op", 5) {
		case 0: // replace the data map
			switch vpChoice("map", 6) {
			case 4:
				r.SetThis(kept)
				m.this, m.has = keptModel, true
			case 5: // an empty (non-nil) map object the caller kept
				r.SetThis(keptEmpty)
				m.this, m.has = keptEmptyModel, true
			case 0:
				r.SetThis(nil)
				m.this, m.has = nil, false
			case 1:
				v := vpChoice("v", 3)
				r.SetThis(map[string]interface{}{"a": v})
				m.this, m.has = map[string]interface{}{"a": v}, true
			case 2:
				r.SetThis(map[string]interface{}{"$x": 7})
				m.this, m.has = map[string]interface{}{"$x": 7}, true
			case 3:
				r.SetThis(map[string]interface{}{"$x": "1", "a": 1})
				m.this, m.has = map[string]interface{}{"$x": "1", "a": 1}, true
			}
		case 1: // set a single entry
			k := vpC20Keys[vpChoice("key", 2)]
			v := vpChoice("v", 3)
			r.SetThisValue(k, v)
			m.set(k, v)
		case 2: // evaluate a formula
			fi := vpChoice("f", 18)
			got, err := vpExact(r, ctx, vpC20Formula(fi))
			want := m.eval(fi)
			if _, skip := want.(vpSkip); skip {
				continue
			}
			if _, fails := want.(vpFails); fails {
				vpAssert("C20/runner/failing-evaluation-is-an-error", err != nil)
				continue
			}
			vpAssert("C20/runner/evaluation-no-error", err == nil)
			if err == nil {
				vpAssert("C20/runner/evaluation-equals-model", vpSameC20(got, want))
			}
		case 3: // auxiliary store
			k := vpC20Keys[vpChoice("key", 3)]
			v := 10 + vpChoice("v", 2)
			r.Set(k, v)
			m.store[k] = v
		case 4:
			k := vpC20Keys[vpChoice("key", 3)]
			got := r.Get(k)
			want, ok := m.store[k]
			if !ok {
				vpAssert("C20/runner/get-missing-is-nil", got == nil)
			} else {
				gi, isInt := got.(int)
				vpAssert("C20/runner/get-equals-model", isInt && gi == want.(int))
			}
		}
	}
	vpReach("C20/runner/done")
}
