package formula

import (
	"context"

	"github.com/ericlagergren/decimal"
)

func init() {
	vpHarnesses["VP_C18_trans"] = VP_C18_trans
	vpHarnesses["VP_C18_inverse"] = VP_C18_inverse
}

// vpWithin: |r - want| <= one unit in the nd-th significant digit of want
// (absolute 10^-nd when want is zero).
func vpWithin(r, want *decimal.Big, nd int) bool {
	if r == nil || !r.IsFinite() {
		return false
	}
	c := decimal.Context128
	diff := new(decimal.Big)
	c.Sub(diff, r, want)
	diff.Abs(diff)
	var tol *decimal.Big
	if want.Sign() == 0 {
		tol = decimal.New(1, nd)
	} else {
		adj := want.Precision() - want.Scale() - 1
		tol = decimal.New(1, -(adj - (nd - 1)))
	}
	return diff.Cmp(tol) <= 0
}

// C18/trans: sqrt, exp, ln, log agree with the real functions to 15 significant
// digits. The library's iterative big-number algorithms cannot be encoded
// symbolically; they are executed by the same engine on a concrete pool whose
// expectations come from Python's decimal module at 34 digits.
func VP_C18_trans() {
	c := vpTransCases[vpChoice("case", len(vpTransCases))]
	f, ok := vpBuiltin(c.fn).(func(*decimal.Big) (*decimal.Big, error))
	vpAssert("C18/trans/builtin-present", ok)
	if !ok {
		return
	}
	x := vpMustBig(c.x)
	want, ok3 := decimal.WithContext(decimal.Context128).SetString(c.want)
	if x == nil || !ok3 {
		vpAssert("C18/trans/pool-wellformed", false)
		return
	}
	r, err := f(x)
	vpAssert("C18/trans/no-error", err == nil && r != nil)
	if err != nil || r == nil {
		return
	}
	vpObserve("case", c.fn, c.x, r.String())
	vpAssert("C18/"+c.fn+"/agrees-to-15-digits", vpWithin(r, want, 15))
	vpAssert("C18/trans/argument-not-mutated", x.String() == vpMustBig(c.x).String())
	vpReach("C18/trans/done")
}

// C18/inverse: sqrt inverts squaring, exp and ln invert each other, log inverts
// powers of ten - evaluated as formulas through the parser and runner on a pool
// (composed errors: 13 significant digits demanded, stated as such).
func VP_C18_inverse() {
	xs := []string{"1", "2", "3", "0.5", "7.25", "12", "99.5", "0.125", "41", "1234.5", "0.03", "65536", "10", "100", "0.1"}
	forms := []struct {
		f      string
		digits int
	}{
		{"sqrt(x*x)", 15}, {"sqrt(x)*sqrt(x)", 14}, {"exp(ln(x))", 13}, {"ln(exp(x))", 13}, {"log(x*x) - 2*log(x)", 0}, {"ln(x*x) - 2*ln(x)", 0},
	}
	xi := vpChoice("x", len(xs))
	fi := vpChoice("form", len(forms))
	code, err := ParseSourceCode([]byte(forms[fi].f))
	vpAssert("C18/inverse/parses", err == nil)
	if err != nil {
		return
	}
	x := vpMustBig(xs[xi])
	if fi == 3 && x.Cmp(decimal.New(200, 0)) > 0 {
		vpReach("C18/inverse/done")
		return
	}
	r := NewRunner()
	r.SetThis(map[string]interface{}{"x": x})
	v, rerr := r.Resolve(context.Background(), code.Expression)
	vpAssert("C18/inverse/no-error", rerr == nil)
	if rerr != nil {
		return
	}
	var got *decimal.Big
	switch t := v.(type) {
	case *decimal.Big:
		got = t
	case float64:
		got = new(decimal.Big).SetFloat64(t)
	}
	vpObserve("inverse", forms[fi].f, xs[xi], v)
	if forms[fi].digits == 0 {
		vpAssert("C18/inverse/log-of-square-is-twice-log", got != nil && vpWithin(got, decimal.New(0, 0), 13))
	} else {
		vpAssert("C18/inverse/returns-the-argument", got != nil && vpWithin(got, x, forms[fi].digits))
	}
	vpReach("C18/inverse/done")
}

var vpTransCases = []struct{ fn, x, want string }{
	{"sqrt", "0", "0"},
	{"sqrt", "1", "1"},
	{"sqrt", "2", "1.414213562373095048801688724209698"},
	{"sqrt", "3", "1.732050807568877293527446341505872"},
	{"sqrt", "4", "2"},
	{"sqrt", "9", "3"},
	{"sqrt", "16", "4"},
	{"sqrt", "0.25", "0.5"},
	{"sqrt", "0.0001", "0.01"},
	{"sqrt", "1e-10", "0.00001"},
	{"sqrt", "2e10", "141421.3562373095048801688724209698"},
	{"sqrt", "152.2756", "12.34"},
	{"sqrt", "10", "3.162277660168379331998893544432719"},
	{"sqrt", "99", "9.949874371066199547344798210012060"},
	{"sqrt", "100", "10"},
	{"sqrt", "123456789", "11111.11106055555544054166614335347"},
	{"sqrt", "0.5", "0.7071067811865475244008443621048490"},
	{"sqrt", "1e20", "1E+10"},
	{"sqrt", "1e-20", "1E-10"},
	{"sqrt", "7", "2.645751311064590590501615753639260"},
	{"sqrt", "1234567.1234567", "1111.110761111015430525416166942000"},
	{"sqrt", "9999999999999999", "99999999.99999999499999999999999987"},
	{"sqrt", "0.1", "0.3162277660168379331998893544432719"},
	{"sqrt", "3.14159265358979", "1.772453850905515113744722430651687"},
	{"sqrt", "64", "8"},
	{"sqrt", "1e15", "31622776.60168379331998893544432719"},
	{"sqrt", "65536", "256"},
	{"sqrt", "4294967296", "65536"},
	{"sqrt", "18446744073709551616", "4294967296"},
	{"sqrt", "0.000004", "0.002"},
	{"sqrt", "12345678987654321", "111111111"},
	{"exp", "0", "1"},
	{"exp", "1", "2.718281828459045235360287471352662"},
	{"exp", "-1", "0.3678794411714423215955237701614609"},
	{"exp", "2", "7.389056098930650227230427460575008"},
	{"exp", "0.5", "1.648721270700128146848650787814164"},
	{"exp", "-0.5", "0.6065306597126334236037995349911805"},
	{"exp", "10", "22026.46579480671651695790064528424"},
	{"exp", "-10", "0.00004539992976248485153559151556055061"},
	{"exp", "0.001", "1.001000500166708341668055753993058"},
	{"exp", "-0.001", "0.9990004998333749916680553571676560"},
	{"exp", "1e-10", "1.000000000100000000005000000000167"},
	{"exp", "20", "485165195.4097902779691068305415406"},
	{"exp", "50", "5184705528587072464087.453322933485"},
	{"exp", "-50", "1.928749847963917783017342816527013E-22"},
	{"exp", "100", "2.688117141816135448412625551580014E+43"},
	{"exp", "-100", "3.720075976020835962959695803863118E-44"},
	{"exp", "2.302585092994046", "10.00000000000000315982008545315686"},
	{"exp", "0.6931471805599453", "1.999999999999999981165535757083647"},
	{"exp", "230", "7.722018499983835717562125214027702E+99"},
	{"exp", "-230", "1.294998192508983592378113644081526E-100"},
	{"exp", "1.5", "4.481689070338064822602055460119276"},
	{"exp", "3", "20.08553692318766774092852965458172"},
	{"exp", "7.25", "1408.104848204695575020086327013638"},
	{"exp", "0.1", "1.105170918075647624811707826490247"},
	{"exp", "12.375", "236806.8242026268107123682563464427"},
	{"ln", "1", "0"},
	{"log", "1", "0"},
	{"ln", "2", "0.6931471805599453094172321214581766"},
	{"log", "2", "0.3010299956639811952137388947244930"},
	{"ln", "10", "2.302585092994045684017991454684364"},
	{"log", "10", "1"},
	{"ln", "0.5", "-0.6931471805599453094172321214581766"},
	{"log", "0.5", "-0.3010299956639811952137388947244930"},
	{"ln", "0.1", "-2.302585092994045684017991454684364"},
	{"log", "0.1", "-1"},
	{"ln", "2.718281828459045", "0.9999999999999999134157889710887612"},
	{"log", "2.718281828459045", "0.4342944819032517900480838491137758"},
	{"ln", "100", "4.605170185988091368035982909368728"},
	{"log", "100", "2"},
	{"ln", "1e10", "23.02585092994045684017991454684364"},
	{"log", "1e10", "10"},
	{"ln", "1e-10", "-23.02585092994045684017991454684364"},
	{"log", "1e-10", "-10"},
	{"ln", "1e100", "230.2585092994045684017991454684364"},
	{"log", "1e100", "100"},
	{"ln", "3", "1.098612288668109691395245236922526"},
	{"log", "3", "0.4771212547196624372950279032551153"},
	{"ln", "7", "1.945910149055313305105352743443180"},
	{"log", "7", "0.8450980400142568307122162585926362"},
	{"ln", "0.999", "-0.001000500333583533500142982254068345"},
	{"log", "0.999", "-0.0004345117740176913064656006955246244"},
	{"ln", "1.001", "0.0009995003330835331668093989205350115"},
	{"log", "1.001", "0.0004340774793186406689213877779888660"},
	{"ln", "123456.789", "11.72364648718588098113995898391011"},
	{"log", "123456.789", "5.091514977169270447518333623059547"},
	{"ln", "0.000123", "-9.003326202591856608845940118146252"},
	{"log", "0.000123", "-3.910094888560602068195560246776704"},
	{"ln", "9999999999", "23.02585092984045684017491454684331"},
	{"log", "9999999999", "9.999999999956570551807503344825226"},
	{"ln", "1.0000001", "9.999999500000033333330833333533333E-8"},
	{"log", "1.0000001", "4.342944601885291801367019735877947E-8"},
	{"ln", "0.9999999", "-1.000000050000003333333583333353333E-7"},
	{"log", "0.9999999", "-4.342945036179773704621018859416382E-8"},
	{"ln", "42", "3.737669618283368305917830101823882"},
	{"log", "42", "1.623249290397900463220983056572245"},
	{"log", "1e-30", "-30"},
	{"log", "1e-7", "-7"},
	{"log", "1e-1", "-1"},
	{"log", "1e0", "0"},
	{"log", "1e1", "1"},
	{"log", "1e2", "2"},
	{"log", "1e5", "5"},
	{"log", "1e15", "15"},
	{"log", "1e16", "16"},
	{"log", "1e22", "22"},
	{"log", "1e33", "33"},
	{"log", "1e100", "100"},
}
