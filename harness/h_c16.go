package formula

import (
	"context"
	"time"

	"github.com/ericlagergren/decimal"
)

func init() {
	vpHarnesses["VP_C16_access"] = VP_C16_access
}

var vpRootNames = []string{"m", "ti", "ts", "st", "nul", "tnil", "i", "i32", "i64", "f", "s", "b", "t", "arr", "abs", "missing", "this", "nm", "ns"}
var vpKeyNames = []string{"k", "n", "inner", "z", "o", "e", "s", "Name", "Age", "missing", "m", "tn", "abs", "nm", "ns"}

type vpData struct {
	top map[string]interface{}
	i   int
	i32 int32
	i64 int64
	str string
	bl  bool
	tm  time.Time
	arr []interface{}
}

func vpBuildData() *vpData {
	d := &vpData{}
	d.i = vpChoice("iv", 3) - 1 // -1, 0, 1
	d.i32 = 40
	d.i64 = -5000000000
	d.str = string(vpBytes("sv", 1))
	d.bl = vpBool("bv")
	d.tm = time.Date(2020, 1, 2, 3, 4, 5, 0, time.UTC)
	d.arr = []interface{}{1, "x"}
	inner := map[string]interface{}{"z": d.str, "tn": (*vpPerson)(nil), "nm": map[string]interface{}(nil), "ns": []interface{}(nil)}
	d.top = map[string]interface{}{
		"m":    map[string]interface{}{"k": d.i, "n": nil, "inner": inner, "s": d.str, "tn": (*vpPerson)(nil)},
		"ti":   map[string]int{"z": 0, "o": d.i},
		"ts":   map[string]string{"e": "", "s": d.str},
		"st":   vpPerson{Name: d.str, Age: d.i, secret: 1},
		"nul":  nil,
		"tnil": (*vpPerson)(nil),
		"i":    d.i, "i32": d.i32, "i64": d.i64, "f": 2.5, "s": d.str, "b": d.bl, "t": d.tm, "arr": d.arr,
		"abs": 42,
		"nm":  map[string]interface{}(nil), // a nil map is an (empty) map, not null
		"ns":  []interface{}(nil),
	}
	return d
}

const (
	vsValue = iota
	vsDontCare
)

// vpRefMember: reference member access written with type switches.
func vpRefMember(v interface{}, key string) (interface{}, int) {
	switch x := v.(type) {
	case nil:
		return nil, vsValue
	case *vpPerson:
		if x == nil {
			return nil, vsValue
		}
		return nil, vsDontCare
	case map[string]interface{}:
		val, ok := x[key]
		if !ok {
			return nil, vsValue
		}
		if p, isP := val.(*vpPerson); isP && p == nil {
			return nil, vsValue // typed nil pointers are null
		}
		return val, vsValue
	case map[string]int:
		val, ok := x[key]
		if !ok {
			return nil, vsValue
		}
		return val, vsValue
	case map[string]string:
		val, ok := x[key]
		if !ok {
			return nil, vsValue
		}
		return val, vsValue
	case vpPerson:
		switch key {
		case "Name":
			return x.Name, vsValue
		case "Age":
			return x.Age, vsValue
		}
		return nil, vsDontCare // missing / unexported struct field: C03's subject
	}
	return nil, vsDontCare // member access on scalars, slices, times: statement silent
}

// vpSameValue: got (an evaluation result) equals the Go data value want.
func vpSameValue(got, want interface{}) bool {
	switch w := want.(type) {
	case nil:
		return IsNull(got) // a bare typed nil pointer may be handed on as such; it must be null
	case int:
		g, ok := got.(*decimal.Big)
		return ok && vpBigIsInt64(g, int64(w))
	case int32:
		g, ok := got.(*decimal.Big)
		return ok && vpBigIsInt64(g, int64(w))
	case int64:
		g, ok := got.(*decimal.Big)
		return ok && vpBigIsInt64(g, w)
	case float64:
		g, ok := got.(*decimal.Big)
		if !ok {
			return false
		}
		f, exact := g.Float64()
		return exact && f == w
	case string:
		g, ok := got.(string)
		return ok && g == w
	case bool:
		g, ok := got.(bool)
		return ok && g == w
	case time.Time:
		g, ok := got.(time.Time)
		return ok && g.Equal(w)
	case []interface{}:
		g, ok := got.([]interface{})
		return ok && len(g) == len(w)
	case map[string]interface{}:
		g, ok := got.(map[string]interface{})
		return ok && len(g) == len(w) && (g == nil) == (w == nil)
	case map[string]int:
		g, ok := got.(map[string]int)
		return ok && len(g) == len(w)
	case map[string]string:
		g, ok := got.(map[string]string)
		return ok && len(g) == len(w)
	case vpPerson:
		g, ok := got.(vpPerson)
		return ok && g.Name == w.Name && g.Age == w.Age
	}
	return false
}

// C16/access: names and dotted paths of depth 0..D read the caller's data null-safely.
func VP_C16_access() {
	D := vpParam("D")
	d := vpBuildData()
	ri := vpChoice("root", len(vpRootNames))
	root := vpRootNames[ri]
	var expr Expression
	var cur interface{}
	status := vsValue
	switch root {
	case "this":
		expr = vpLit(SK_ThisKeyword, "this")
		cur = d.top
	case "abs":
		expr = vpId(root)
		// a bare name denotes the builtin of that name if there is one
		status = vsDontCare
	default:
		expr = vpId(root)
		cur = d.top[root]
		if p, isP := cur.(*vpPerson); isP && p == nil {
			cur = nil
		}
	}
	depth := vpChoice("depth", D+1)
	errExpected := false
	for lvl := 0; lvl < depth; lvl++ {
		key := vpKeyNames[vpChoice("key", len(vpKeyNames))]
		assert := vpBool("assert")
		expr = &SelectorExpression{Expression: expr, Name: vpId(key), Assert: assert}
		if status == vsValue && !errExpected {
			if assert && cur == nil {
				errExpected = true // x!.k is an error exactly when x is null
			} else {
				cur, status = vpRefMember(cur, key)
			}
		}
	}
	r := NewRunner()
	r.SetThis(d.top)
	got, err := vpExact(r, context.Background(), expr)
	vpObserve("path", ri, depth, err != nil)
	if root == "abs" && depth == 0 {
		_, isFunc := got.(func(*decimal.Big) (*decimal.Big, error))
		vpAssert("C16/access/builtin-shadows-data", err == nil && isFunc)
		return
	}
	if status == vsDontCare {
		vpReach("C16/access/dont-care")
		return
	}
	if errExpected {
		vpAssert("C16/access/assert-on-null-is-error", err != nil)
		vpReach("C16/access/error")
		return
	}
	vpAssert("C16/access/no-error", err == nil)
	if err != nil {
		return
	}
	vpAssert("C16/access/value", vpSameValue(got, cur))
	vpReach("C16/access/value")
}
