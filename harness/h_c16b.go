package formula

import (
	"context"

	"github.com/ericlagergren/decimal"
)

func init() {
	vpHarnesses["VP_C16_structs"] = VP_C16_structs
}

type vpCompany struct {
	Title string
	Name  string
	Age   int
}

// vpStructPool: struct values of DIFFERENT Go types that share field names
// at different positions (named, anonymous, function-local with the name of a
// package-level type, nested inside a map).  want[i] = {Name, Age} of entry i.
func vpStructPool() (map[string]interface{}, []string, [][2]interface{}) {
	type vpPerson struct { // shadows the package-level type: same Name(), same PkgPath()
		Age  int
		Name string
	}
	names := []string{"p0", "p1", "p2", "p3", "p4", "p5"}
	data := map[string]interface{}{
		"p0": vpPerson{Age: 10, Name: "n0"},
		"p1": struct {
			Name string
			Age  int
		}{"n1", 11},
		"p2": struct {
			Age  int
			Name string
		}{12, "n2"},
		"p3": vpCompany{Title: "t3", Name: "n3", Age: 13},
		"p4": struct {
			X    bool
			Y    bool
			Age  int
			Name string
		}{true, false, 14, "n4"},
	}
	data["p5"] = vpMakeOuterPerson()
	want := [][2]interface{}{{"n0", 10}, {"n1", 11}, {"n2", 12}, {"n3", 13}, {"n4", 14}, {"n5", 15}}
	return data, names, want
}

func vpMakeOuterPerson() interface{} { return vpPerson{Name: "n5", Age: 15} }

// C16/structs: `x.k` reads exported field k of a struct, whatever other
// struct types were read before in the same process / by the same runner.
func VP_C16_structs() {
	K := vpParam("K")
	data, names, want := vpStructPool()
	r := NewRunner()
	r.SetThis(data)
	for step := 0; step < K; step++ {
		si := vpChoice("s", len(names))
		fi := vpChoice("field", 2)
		if vpBool("fresh") {
			r = NewRunner()
			r.SetThis(data)
		}
		field := "Name"
		if fi == 1 {
			field = "Age"
		}
		expr := &SelectorExpression{Expression: vpId(names[si]), Name: vpId(field), Assert: vpBool("assert")}
		got, err := vpExact(r, context.Background(), expr)
		vpAssert("C16/structs/no-error", err == nil)
		if err != nil {
			return
		}
		ok := false
		switch w := want[si][fi].(type) {
		case string:
			g, isS := got.(string)
			ok = isS && g == w
		case int:
			g, isN := got.(*decimal.Big)
			ok = isN && vpBigIsInt64(g, int64(w))
		}
		vpAssert("C16/structs/field-value", ok)
	}
	vpReach("C16/structs/done")
}
