package formula

import (
	"context"

	"github.com/ericlagergren/decimal"
)

func init() {
	vpHarnesses["VP_C07_locals"] = VP_C07_locals
}

// ---- program generator (symbolic choice) with a parallel reference tree ----

const (
	gLit = iota
	gLocal
	gData
	gAssign
	gComma
	gArray
	gCall
	gCond
	gParen
	gBadAssign
	gKinds
)

type vpProg struct {
	kind int
	name string // local / data name; for gBadAssign the flavour
	lit  int
	kids []*vpProg
}

var vpLocalNames = []string{"$a", "$b"}
var vpDataNames = []string{"x", "y"}

func vpGenProg(budget *int, depth int) *vpProg {
	*budget--
	max := gKinds
	if *budget <= 0 || depth <= 0 {
		max = gAssign // leaves only
	}
	k := vpChoice("g", max)
	p := &vpProg{kind: k}
	switch k {
	case gLit:
		p.lit = vpChoice("lit", 3) // 0, 1, 2
	case gLocal:
		p.name = vpLocalNames[vpChoice("ln", 2)]
	case gData:
		p.name = vpDataNames[vpChoice("dn", 2)]
	case gAssign:
		p.name = vpLocalNames[vpChoice("ln", 2)]
		p.kids = []*vpProg{vpGenProg(budget, depth-1)}
	case gComma, gArray, gCall:
		p.kids = []*vpProg{vpGenProg(budget, depth-1), vpGenProg(budget, depth-1)}
	case gCond:
		p.kids = []*vpProg{vpGenProg(budget, depth-1), vpGenProg(budget, depth-1), vpGenProg(budget, depth-1)}
	case gParen:
		p.kids = []*vpProg{vpGenProg(budget, depth-1)}
	case gBadAssign:
		p.lit = vpChoice("bad", 6) // 0: x = e, 1: 1 = e, 2: x.k = e, 3: ($a) = e, 4: $a.k = e, 5: $a!.k = e
		p.kids = []*vpProg{vpGenProg(budget, depth-1)}
	}
	return p
}

func vpNumLit(v int) *LiteralExpression {
	return vpLit(SK_NumberLiteral, string([]byte{byte('0' + v)}))
}

func vpList(es ...Expression) *NodeList[Expression] {
	l := new(NodeList[Expression])
	for _, e := range es {
		l.Add(e)
	}
	return l
}

func (p *vpProg) ast() Expression {
	switch p.kind {
	case gLit:
		return vpNumLit(p.lit)
	case gLocal, gData:
		return vpId(p.name)
	case gAssign:
		return vpBin(SK_Equals, vpId(p.name), p.kids[0].ast())
	case gComma:
		return vpBin(SK_Comma, p.kids[0].ast(), p.kids[1].ast())
	case gArray:
		return &ArrayLiteralExpression{Elements: vpList(p.kids[0].ast(), p.kids[1].ast())}
	case gCall:
		return &CallExpression{Expression: vpId("f"), Arguments: vpList(p.kids[0].ast(), p.kids[1].ast())}
	case gCond:
		return &ConditionalExpression{Condition: p.kids[0].ast(), QuestionTok: &TokenNode{Token: SK_Question}, WhenTrue: p.kids[1].ast(), ColonTok: &TokenNode{Token: SK_Colon}, WhenFalse: p.kids[2].ast()}
	case gParen:
		return &ParenthesizedExpression{Expression: p.kids[0].ast()}
	case gBadAssign:
		var target Expression
		switch p.lit {
		case 0:
			target = vpId("x")
		case 1:
			target = vpNumLit(1)
		case 3:
			target = &ParenthesizedExpression{Expression: vpId("$a")}
		case 4:
			target = &SelectorExpression{Expression: vpId("$a"), Name: vpId("k")}
		case 5:
			target = &SelectorExpression{Expression: vpId("$a"), Name: vpId("k"), Assert: true}
		default:
			target = &SelectorExpression{Expression: vpId("x"), Name: vpId("k")}
		}
		return vpBin(SK_Equals, target, p.kids[0].ast())
	}
	return nil
}

// ---- store-passing reference evaluation ----

// reference values: nil (null), int (number), []interface{} (array)
type vpRefState struct {
	store map[string]interface{} // locals and data
	calls int
}

func vpRefTruthy(v interface{}) bool {
	switch x := v.(type) {
	case nil:
		return false
	case int:
		return x != 0
	}
	return true
}

// eval returns (value, ok); ok=false means evaluation fails with an error.
func (s *vpRefState) eval(p *vpProg) (interface{}, bool) {
	switch p.kind {
	case gLit:
		return p.lit, true
	case gLocal, gData:
		return s.store[p.name], true
	case gAssign:
		v, ok := s.eval(p.kids[0])
		if !ok {
			return nil, false
		}
		s.store[p.name] = v
		return v, true
	case gComma:
		if _, ok := s.eval(p.kids[0]); !ok {
			return nil, false
		}
		return s.eval(p.kids[1])
	case gArray:
		a, ok := s.eval(p.kids[0])
		if !ok {
			return nil, false
		}
		b, ok := s.eval(p.kids[1])
		if !ok {
			return nil, false
		}
		return []interface{}{a, b}, true
	case gCall:
		if _, ok := s.eval(p.kids[0]); !ok {
			return nil, false
		}
		if _, ok := s.eval(p.kids[1]); !ok {
			return nil, false
		}
		s.calls++
		return 5, true
	case gCond:
		c, ok := s.eval(p.kids[0])
		if !ok {
			return nil, false
		}
		if vpRefTruthy(c) {
			return s.eval(p.kids[1])
		}
		return s.eval(p.kids[2])
	case gParen:
		return s.eval(p.kids[0])
	case gBadAssign:
		return nil, false // assigning to anything but a bare $-name is an error
	}
	return nil, false
}

func vpSameRef(got interface{}, want interface{}) bool {
	switch w := want.(type) {
	case nil:
		return IsNull(got)
	case int:
		g, ok := got.(*decimal.Big)
		return ok && vpBigIsInt64(g, int64(w))
	case bool:
		g, ok := got.(bool)
		return ok && g == w
	case string:
		g, ok := got.(string)
		return ok && g == w
	case []interface{}:
		g, ok := got.([]interface{})
		if !ok || len(g) != len(w) {
			return false
		}
		for i := range w {
			if !vpSameRef(g[i], w[i]) {
				return false
			}
		}
		return true
	}
	return false
}

// C07/locals: assignments bind and sequence left to right; forbidden targets
// are errors; the caller's data is never modified.
func VP_C07_locals() {
	N, D := vpParam("N"), vpParam("D")
	budget := N
	prog := vpGenProg(&budget, D)
	calls := 0
	xv := vpChoice("xv", 3)
	inner := map[string]interface{}{"k": 1}
	sl := []interface{}{1, 2}
	num := new(decimal.Big).SetMantScale(9, 0)
	data := map[string]interface{}{
		"x": xv, "y": nil, "inner": inner, "sl": sl, "num": num,
		"f": func(a, b interface{}) (int, error) { calls++; return 5, nil },
	}
	vpFreeze("data", data)
	vpAllowDollarKeys("data")
	r := NewRunner()
	r.SetThis(data)
	ref := &vpRefState{store: map[string]interface{}{"x": xv, "y": nil}}
	want, wok := ref.eval(prog)
	got, err := vpExact(r, context.Background(), prog.ast())
	vpObserve("result", wok, err == nil)
	if !wok {
		vpAssert("C07/locals/error-expected", err != nil)
		vpReach("C07/locals/error")
	} else {
		vpAssert("C07/locals/no-error", err == nil)
		if err == nil {
			vpAssert("C07/locals/value", vpSameRef(got, want))
			vpAssert("C07/locals/call-count", calls == ref.calls)
			// locals are visible afterwards and in a second evaluation by the same runner
			for _, ln := range vpLocalNames {
				v2, err2 := vpExact(r, context.Background(), vpId(ln))
				vpAssert("C07/locals/visible-later", err2 == nil && vpSameRef(v2, ref.store[ln]))
			}
		}
		vpReach("C07/locals/value")
	}
	// frame condition: non-$ entries unchanged, nothing reachable mutated
	unchanged := len(inner) == 1 && len(sl) == 2 && num.Cmp(decimal.New(9, 0)) == 0 && !num.Signbit()
	if v, ok := data["x"].(int); !ok || v != xv {
		unchanged = false
	}
	if data["y"] != nil {
		unchanged = false
	}
	for k := range data {
		if k != "x" && k != "y" && k != "inner" && k != "sl" && k != "num" && k != "f" && !(len(k) > 0 && k[0] == '$') {
			unchanged = false
		}
	}
	vpAssert("C07/locals/data-unchanged", unchanged)
	vpAssert("C07/locals/no-write-to-caller-data", vpWrites() == 0)
}

func init() {
	vpHarnesses["VP_C07_sequencing"] = VP_C07_sequencing
	vpHarnesses["VP_C07_builtins"] = VP_C07_builtins
}

// vpWrap wraps inner in one of the constructs through which a binding made on
// the left must still be visible on the right.
func vpWrap(inner *vpProg, filler func() *vpProg) *vpProg {
	switch vpChoice("wrap", 9) {
	case 0:
		return inner
	case 1:
		return &vpProg{kind: gParen, kids: []*vpProg{inner}}
	case 2: // selected branch of a conditional with a truthy condition
		return &vpProg{kind: gCond, kids: []*vpProg{{kind: gLit, lit: 1}, inner, filler()}}
	case 3: // selected branch of a conditional with a falsy condition
		return &vpProg{kind: gCond, kids: []*vpProg{{kind: gLit, lit: 0}, filler(), inner}}
	case 4:
		return &vpProg{kind: gArray, kids: []*vpProg{inner, filler()}}
	case 5:
		return &vpProg{kind: gArray, kids: []*vpProg{filler(), inner}}
	case 6:
		return &vpProg{kind: gCall, kids: []*vpProg{filler(), inner}}
	case 7:
		return &vpProg{kind: gComma, kids: []*vpProg{filler(), inner}}
	}
	return &vpProg{kind: gCond, kids: []*vpProg{inner, filler(), filler()}} // in the condition
}

// C07/sequencing: `L , R` where L contains an assignment wrapped in up to two
// constructs (parentheses, either branch or the condition of a conditional,
// array elements, call arguments, a nested comma) and R reads the locals.
func VP_C07_sequencing() {
	filler := func() *vpProg {
		if vpBool("fillerReadsLocal") {
			return &vpProg{kind: gLocal, name: vpLocalNames[vpChoice("fl", 2)]}
		}
		return &vpProg{kind: gLit, lit: vpChoice("flit", 3)}
	}
	assign := &vpProg{kind: gAssign, name: vpLocalNames[vpChoice("target", 2)], kids: []*vpProg{{kind: gLit, lit: 1 + vpChoice("val", 2)}}}
	left := vpWrap(assign, filler)
	if vpParam("W") >= 2 {
		left = vpWrap(left, filler)
	}
	var right *vpProg
	switch vpChoice("right", 3) {
	case 0:
		right = &vpProg{kind: gLocal, name: "$a"}
	case 1:
		right = &vpProg{kind: gArray, kids: []*vpProg{{kind: gLocal, name: "$a"}, {kind: gLocal, name: "$b"}}}
	default:
		right = &vpProg{kind: gAssign, name: "$b", kids: []*vpProg{{kind: gLocal, name: "$a"}}}
	}
	prog := &vpProg{kind: gComma, kids: []*vpProg{left, right}}
	calls := 0
	data := map[string]interface{}{"x": 0, "y": nil, "f": func(a, b interface{}) (int, error) { calls++; return 5, nil }}
	r := NewRunner()
	r.SetThis(data)
	ref := &vpRefState{store: map[string]interface{}{"x": 0, "y": nil}}
	want, wok := ref.eval(prog)
	got, err := vpExact(r, context.Background(), prog.ast())
	vpAssert("C07/sequencing/no-error", wok && err == nil)
	if err != nil || !wok {
		return
	}
	vpAssert("C07/sequencing/value", vpSameRef(got, want))
	vpAssert("C07/sequencing/call-count", calls == ref.calls)
	for _, ln := range vpLocalNames {
		v2, err2 := vpExact(r, context.Background(), vpId(ln))
		vpAssert("C07/sequencing/binding-visible-in-later-evaluation", err2 == nil && vpSameRef(v2, ref.store[ln]))
	}
	vpReach("C07/sequencing/done")
}

// C07/builtins: numbers bound to locals or held in the caller's data are not
// changed by passing them to builtins (the value read later is the value bound).
func VP_C07_builtins() {
	fn := []string{"round", "roundBank", "abs", "ceil", "floor", "toInt", "finite", "toString", "max", "min"}[vpChoice("fn", 10)]
	x := vpNumParamExp("x", 1000, -2, 0)
	if vpBool("manyDigits") {
		// 19 significant digits (not representable in binary floating point); concrete, because a value
		// that leaves through float64 is re-parsed by strconv, which cannot run on symbolic digits
		x = vpNum{neg: x.neg, coef: 1234567890123456789, exp: -2}
	}
	num := x.big()
	data := map[string]interface{}{"num": num}
	vpFreeze("data", data)
	vpAllowDollarKeys("data")
	r := NewRunner()
	r.SetThis(data)
	call := func(arg Expression) Expression { return &CallExpression{Expression: vpId(fn), Arguments: vpList(arg)} }
	// $a = num, fn($a), fn(num), [$a, num]
	prog := vpBin(SK_Comma, vpBin(SK_Comma, vpBin(SK_Comma, vpBin(SK_Equals, vpId("$a"), vpId("num")), call(vpId("$a"))), call(vpId("num"))),
		&ArrayLiteralExpression{Elements: vpList(vpId("$a"), vpId("num"))})
	got, err := vpExact(r, context.Background(), prog)
	vpAssert("C07/builtins/no-error", err == nil)
	arr, ok := got.([]interface{})
	if err != nil || !ok || len(arr) != 2 {
		vpAssert("C07/builtins/yields-pair", false)
		return
	}
	a, ok1 := arr[0].(*decimal.Big)
	b, ok2 := arr[1].(*decimal.Big)
	vpAssert("C07/builtins/local-still-has-bound-value", ok1 && vpBigEq(a, x.neg, x.coef, x.exp))
	vpAssert("C07/builtins/caller-number-unchanged", ok2 && vpBigEq(b, x.neg, x.coef, x.exp) && vpBigEq(num, x.neg, x.coef, x.exp))
	vpAssert("C07/builtins/no-write-to-caller-data", vpWrites() == 0)
	vpReach("C07/builtins/done")
}

func init() {
	vpHarnesses["VP_C07_operators"] = VP_C07_operators
	vpHarnesses["VP_C07_rebind"] = VP_C07_rebind
}

// C07/operators: no operator changes a number it reads: after `$a = num, FORM`
// the local and the caller's number still hold the bound value, for every
// operator and several operand shapes (bare, prefixed, parenthesised, both sides).
func VP_C07_operators() {
	pool := []struct {
		c int64
		s int
	}{{5, 0}, {25, 1}, {-7, 0}, {0, 0}, {1234567890123456789, 2}}
	pv := pool[vpChoice("x", len(pool))]
	num := new(decimal.Big).SetMantScale(pv.c, pv.s)
	ops := []string{"+", "-", "*", "/", "%", "&", "|", "^", "<", "==", "===", "&&", "||", "??"}
	forms := []string{"$a OP 2", "+$a OP 2", "-$a OP 2", "($a) OP 2", "2 OP $a", "2 OP +$a", "+num OP 2", "num OP 2", "$a OP $a", "+$a OP +num", "+(+$a) OP 1.5", "($b = $a) OP 2"}
	singles := []string{"+$a", "-$a", "~$a", "!$a", "!!$a", "+num", "-num", "~num", "typeof $a", "$a ? $a : num", "+$a ? +$a : 0"}
	var form string
	if vpBool("single") {
		form = singles[vpChoice("form", len(singles))]
	} else {
		f := forms[vpChoice("form", len(forms))]
		op := ops[vpChoice("op", len(ops))]
		form = ""
		for i := 0; i < len(f); i++ {
			if i+1 < len(f) && f[i] == 'O' && f[i+1] == 'P' {
				form += op
				i++
			} else {
				form += string(f[i])
			}
		}
	}
	src := "$a = num, (" + form + "), [$a, num]"
	code, perr := ParseSourceCode([]byte(src))
	vpAssert("C07/operators/parses", perr == nil)
	if perr != nil {
		return
	}
	data := map[string]interface{}{"num": num}
	vpFreeze("data", data)
	vpAllowDollarKeys("data")
	r := NewRunner()
	r.SetThis(data)
	got, err := vpExact(r, context.Background(), code.Expression)
	vpObserve("form", form, err != nil)
	neg, coef := pv.c < 0, uint64(pv.c)
	if neg {
		coef = uint64(-pv.c)
	}
	if err == nil {
		arr, ok := got.([]interface{})
		if !ok || len(arr) != 2 {
			vpAssert("C07/operators/yields-pair", false)
			return
		}
		a, ok1 := arr[0].(*decimal.Big)
		vpAssert("C07/operators/local-still-has-bound-value", ok1 && vpBigEq(a, neg, coef, -pv.s))
	}
	// also after an evaluation that failed (e.g. % on a fraction): the caller's number is untouched
	vpAssert("C07/operators/caller-number-unchanged", vpBigEq(num, neg, coef, -pv.s) && (num.Signbit() == neg || coef == 0))
	if v2, err2 := vpExact(r, context.Background(), vpId("$a")); err2 == nil {
		a2, ok := v2.(*decimal.Big)
		vpAssert("C07/operators/later-read-sees-bound-value", ok && vpBigEq(a2, neg, coef, -pv.s))
	}
	vpAssert("C07/operators/no-write-to-caller-data", vpWrites() == 0)
	vpReach("C07/operators/done")
}

// C07/rebind: later evaluations by the same runner see a binding until another
// assignment succeeds: a re-assignment whose right-hand side fails with an
// error leaves the earlier binding in place.
func VP_C07_rebind() {
	first := []string{"$a = 5", "$a = 'v'", "$a = x", "($a = 1, $a = 2)"}
	firstWant := []interface{}{5, "v", 7, 2}
	failing := []string{"$a = nofn()", "$a = null!.k", "$a = x.k!.j", "$a = left('abc', -1)", "$a = 1 + nofn()", "[$b = 3, $a = nofn()]", "$a = ($c = 4, nofn())"}
	fi := vpChoice("first", len(first))
	gi := vpChoice("failing", len(failing))
	r := NewRunner()
	if vpBool("withData") {
		r.SetThis(map[string]interface{}{"x": 7})
	} else {
		r.SetThisValue("x", 7)
	}
	ev := func(src string) (interface{}, error) {
		code, perr := ParseSourceCode([]byte(src))
		if perr != nil {
			return nil, perr
		}
		return vpExact(r, context.Background(), code.Expression)
	}
	_, err1 := ev(first[fi])
	vpAssert("C07/rebind/first-assignment-succeeds", err1 == nil)
	_, err2 := ev(failing[gi])
	vpAssert("C07/rebind/failing-assignment-is-an-error", err2 != nil)
	v, err3 := ev("$a")
	same := func(v interface{}, want interface{}) bool {
		switch w := want.(type) {
		case int:
			g, ok := v.(*decimal.Big)
			return ok && vpBigEq(g, false, uint64(w), 0)
		case string:
			g, ok := v.(string)
			return ok && g == w
		}
		return false
	}
	vpObserve("rebind", fi, gi, vpShowValue(v))
	vpAssert("C07/rebind/earlier-binding-still-visible", err3 == nil && same(v, firstWant[fi]))
	if gi == 5 {
		b, errb := ev("$b")
		vpAssert("C07/rebind/bindings-made-before-the-error-are-visible", errb == nil && same(b, 3))
	}
	vpReach("C07/rebind/done")
}

func init() {
	vpHarnesses["VP_C07_spread"] = VP_C07_spread
}

// C07/spread: call arguments are evaluated left to right also in a spread call
// f(a, xs...): a local assigned in one argument is seen by the arguments to its
// right and not by those to its left.
func VP_C07_spread() {
	digits := func(first int, rest ...int) (int, error) {
		v := first
		for _, r := range rest {
			v = v*10 + r
		}
		return v, nil
	}
	pool := []struct {
		f    string
		want int
	}{
		{"$a = 1, digits($a = 5, [$a, 7]...)", 557}, {"$x = 1, digits($x, [$x = 9, 0]...)", 190}, {"$a = 1, digits($a, [$a, $a = 3]...)", 113},
		{"$a = 2, digits(($a = 4, $a), [$a]...)", 44}, {"$a = 1, digits($a = 5, $a, 7)", 557}, {"$a = 1, [$a, $a = 2, $a]", -1000},
		{"$a = 6, digits($a, [1, 2]...) + ($a = 1)", 613}, {"digits($b = 3, [$b, $b]...) + $b", 336},
		{"max($a = 4, 1), $a", 4}, {"(abs($a = -7)), $a", -7}, {"len($a = 'xyz'), len($a)", 3}, {"1, ($a = 2), 3, $a", 2}, {"toString($a = 5), max(1, 2), $a", 5},
	}
	p := pool[vpChoice("f", len(pool))]
	code, err := ParseSourceCode([]byte(p.f))
	vpAssert("C07/spread/parses", err == nil)
	if err != nil {
		return
	}
	r := NewRunner()
	r.SetThis(map[string]interface{}{"digits": digits})
	v, rerr := vpExact(r, context.Background(), code.Expression)
	vpObserve("spread", p.f, vpShowValue(v))
	vpAssert("C07/spread/no-error", rerr == nil)
	if p.want == -1000 {
		arr, ok := v.([]interface{})
		vpAssert("C07/spread/array-elements-left-to-right", ok && len(arr) == 3 && vpSameRef(arr[0], 1) && vpSameRef(arr[1], 2) && vpSameRef(arr[2], 2))
	} else {
		vpAssert("C07/spread/arguments-left-to-right", vpSameRef(v, p.want))
	}
	vpReach("C07/spread/done")
}

func init() {
	vpHarnesses["VP_C07_reassign"] = VP_C07_reassign
}

// C07/reassign: a second assignment to the same local replaces the binding
// whatever the old and new values are - in particular when they are of
// different kinds but loosely equal ('5' / 5, 0 / null / false / '', true / 1).
func VP_C07_reassign() {
	srcs := []string{"5", "'5'", "0", "null", "false", "true", "1", "''", "'0'", "'true'", "x", "'7'", "y", "-0"}
	wants := []interface{}{5, "5", 0, nil, false, true, 1, "", "0", "true", 7, "7", nil, 0}
	i := vpChoice("v1", len(srcs))
	j := vpChoice("v2", len(srcs))
	mode := vpChoice("mode", 3)
	r := NewRunner()
	r.SetThis(map[string]interface{}{"x": 7, "y": nil})
	ev := func(src string) (interface{}, error) {
		code, perr := ParseSourceCode([]byte(src))
		if perr != nil {
			return nil, perr
		}
		return vpExact(r, context.Background(), code.Expression)
	}
	same := func(v interface{}, want interface{}) bool {
		switch w := want.(type) {
		case nil:
			return IsNull(v)
		case bool:
			g, ok := v.(bool)
			return ok && g == w
		case int:
			g, ok := v.(*decimal.Big)
			return ok && vpBigEq(g, g.Signbit(), uint64(w), 0)
		case string:
			g, ok := v.(string)
			return ok && g == w
		}
		return false
	}
	var v2 interface{}
	var err error
	switch mode {
	case 0: // two evaluations by the same runner
		_, err = ev("$a = " + srcs[i])
		vpAssert("C07/reassign/first-assignment-succeeds", err == nil)
		v2, err = ev("$a = " + srcs[j])
	case 1: // one comma sequence
		v2, err = ev("$a = " + srcs[i] + ", $a = " + srcs[j])
	default: // chained through another local
		v2, err = ev("$b = " + srcs[j] + ", $a = " + srcs[i] + ", $a = $b")
	}
	vpAssert("C07/reassign/second-assignment-has-its-value", err == nil && same(v2, wants[j]))
	got, err3 := ev("$a")
	vpObserve("reassign", i, j, mode, vpShowValue(got))
	vpAssert("C07/reassign/later-read-sees-the-new-binding", err3 == nil && same(got, wants[j]))
	inSeq, err4 := ev("$a = " + srcs[i] + ", $a = " + srcs[j] + ", [$a]")
	ok := false
	if arr, isArr := inSeq.([]interface{}); isArr && len(arr) == 1 {
		ok = same(arr[0], wants[j])
	}
	vpAssert("C07/reassign/read-further-right-sees-the-new-binding", err4 == nil && ok)
	vpReach("C07/reassign/done")
}
