#!/usr/bin/env python3
"""Cross-solver diff: explores a harness with SMT query logging (z3 4.8.12), then replays
every worker's dialogue through z3-new (5.1) and cvc5 and compares the check-sat verdicts.

usage: crosscheck.py <Harness> [K=V ...]   (use small bounds; 2 workers)"""
import subprocess, sys, os, re, tempfile, shutil, glob

def run_solver(cmd, text):
    p = subprocess.run(cmd, input=text, capture_output=True, text=True, timeout=3600)
    return [l.strip() for l in p.stdout.splitlines() if l.strip() in ("sat", "unsat", "unknown") or l.startswith("(error")]

def main():
    h = sys.argv[1]; params = sys.argv[2:]
    d = tempfile.mkdtemp(prefix="vpx_")
    try:
        subprocess.run([os.environ.get("VP_BIN", "/verif/bin/vp"), "explore", h] + params + ["workers=2", "querylog=" + d], capture_output=True, text=True, timeout=7200)
        total = 0; bad = 0
        for f in sorted(glob.glob(d + "/*.smt2")):
            lines = open(f).read().splitlines()
            recorded = []
            script = []
            for l in lines:
                if l.startswith("; -> "):
                    r = l[5:].strip()
                    if r in ("sat", "unsat", "unknown"):
                        recorded.append(r)
                    continue
                if l.startswith("(get-value") or l.startswith("(echo") or l.startswith("(set-option :timeout"):
                    continue
                script.append(l)
            text = "\n".join(script) + "\n"
            for name, cmd in (("z3-new", ["z3-new", "-in"]), ("cvc5", ["cvc5", "--incremental", "--lang=smt2"])):
                t = text if name != "cvc5" else "(set-logic ALL)\n" + text
                got = run_solver(cmd, t)
                errs = [g for g in got if g.startswith("(error")]
                verdicts = [g for g in got if not g.startswith("(error")]
                n = min(len(verdicts), len(recorded))
                diff = sum(1 for i in range(n) if verdicts[i] != recorded[i] and "unknown" not in (verdicts[i], recorded[i]))
                total += n; bad += diff + len(errs) + abs(len(verdicts) - len(recorded))
                print("%s %s: %d verdicts compared with z3 4.8.12, %d disagreements, %d error lines, %d missing" % (os.path.basename(f), name, n, diff, len(errs), abs(len(verdicts) - len(recorded))))
        print("TOTAL compared=%d problems=%d" % (total, bad))
        sys.exit(1 if bad else 0)
    finally:
        shutil.rmtree(d, ignore_errors=True)

main()
