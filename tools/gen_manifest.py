#!/usr/bin/env python3
"""Regenerates /verif/MANIFEST.json from the list of claimed properties below.
The check registry itself (harnesses, bounds) lives in engine/cmd/vp/checks.go."""
import json, subprocess

LEVEL_TEXT = {
 "C01": "bounded symbolic execution of the real ParseSourceCode: every text of L symbolic bytes and every sequence of K symbolic tokens; within those bounds the solver-decided path split is exhaustive, so 'tree xor error, no panic, terminates, complete tree' holds for every input of that size; nothing is claimed for longer inputs or for running time",
 "C02": "differential bounded symbolic execution: the real parser vs a reference parser written from the statement, on all token sequences of the stated lengths, all operator triples and list contexts; the solver decides every branch, so agreement holds for every sequence inside the bounds",
 "C03": "bounded symbolic execution of the real evaluator over every builtin name x argument kind x argument count and every operator x operand kind pair, plus a concrete pool of formulas at the extremes (huge exponents, huge pad lengths, self-containing values); a panic, a process death or a step-budget overrun on any path is a violation (replayed natively); heavy numeric algorithms run on concrete pools only; one listed known finding (non-termination of rounding/remainder below 10^-10^8)",
 "C04": "bounded symbolic execution of the runner and the decimal library's add/mul/quorem code with symbolic coefficients and signs (products up to 2^64), exponents case-split, against exact integer arithmetic; '/', >34-digit rounding, float64 entry and hand-back are decided on concrete pools with independently computed expectations (not encodable symbolically)",
 "C05": "bounded symbolic execution of the eight comparison operators (real decimal.Cmp) with symbolic coefficients/signs/bytes against exact order; every (coefficient, exponent) spelling inside the bounds is covered",
 "C06": "symbolic execution of !!, !, ?:, &&, ||, ?? over all condition kinds with symbolic scalars; selected operand identity and single-branch evaluation asserted",
 "C07": "bounded symbolic execution of generated programs against a store-passing reference evaluator, plus an engine-level write monitor that proves no store/map-update instruction targets caller data on any path",
 "C08": "inductive frame-condition argument decided by symbolic execution: no path of parse/evaluate/analyse writes any cell reachable from package state or the tree (write monitor), and self-composition (run twice with unrelated work between) gives equal results for every input in the bounds",
 "C09": "sufficient condition for race freedom decided by symbolic execution: the operations goroutines run concurrently perform no write to any shared cell on any path within the bounds; schedules themselves are not explored (native replays use the race detector)",
 "C10": "bounded symbolic execution of ResolveReferenceFields(NotLocal) on generated formulas against an independent walker, with a symbolic '$'-or-not first byte; sufficiency by evaluating against the full and the restricted data map",
 "C11": "bounded symbolic execution of the call bridge over a pool of 14 host signatures x argument lists: an oracle written from the statement predicts the exact invocation log or an error",
 "C12": "bounded symbolic execution of scanner+parser+evaluator on every literal-alphabet text of <= L bytes against a reference recogniser/evaluator; digits stay symbolic inside the class",
 "C13": "bounded symbolic execution: a reference escaper with symbolic choice of escape form, the real scanner/runner must return exactly the original bytes; unterminated literals must be errors",
 "C14": "inductive step by symbolic execution: one Scan() from every position of every text of L symbolic bytes (tiling follows by induction), plus the character classes for one symbolic rune over all 0x110000 code points",
 "C15": "bounded symbolic execution of the line-start table/offset helpers against a direct count for every text of L symbolic bytes and every offset, of BinarySearch on symbolic sorted arrays, and of node ranges / re-parse / error text on every text of L bytes",
 "C16": "bounded symbolic execution of name lookup and member access over a shape pool with symbolic '.'/'!.' flags and key choices against a reflection-free reference lookup",
 "C17": "bounded symbolic execution of the string builtins (fetched by name) on strings of symbolic bytes and symbolic 64-bit positions against definitional loops and the algebraic laws; regexp and non-ASCII case mapping on concrete pools",
 "C18": "bounded symbolic execution of abs/ceil/floor/round/roundBank/max/min/toInt/toFloat/toString/finite and & | ^ ~ with symbolic coefficients/integers (library RoundToInt executed symbolically); sqrt/exp/ln/log on concrete pools against independently computed 34-digit values",
 "C19": "the solver decides the wiring of the 14 date builtins to package time for all arguments, with time's calendar functions as uninterpreted functions and the clock as a symbolic non-decreasing sequence; the calendar itself is trusted to Go's time package (cross-checked natively against an independent days-from-civil computation on replayed models)",
 "C20": "bounded exhaustive symbolic exploration of operation histories of length N from both initial states against the two-map model",
}

NOTE = ("trusted base: go/ssa construction of /repo's current working tree; the forked x/tools reference interpreter extended with symbolic scalars "
        "(validated on every run by natively replaying sampled solver models and comparing event traces); z3 4.8.12; the environment models listed in evidence "
        "under coverage.stubs; bounds and what lies outside them are in evidence under coverage.bounds / coverage.outside_the_claim")

def main():
    ids = ["C%02d" % i for i in range(1, 21)]
    checks = []
    for i in ids:
        checks.append({
            "property_id": i,
            "quick_cmd": "cd /verif && ./check %s quick" % i,
            "thorough_cmd": "cd /verif && ./check %s thorough" % i,
            "evidence_file": "/verif/evidence/%s.json" % i,
            "replay_cmd_template": "cd /verif && ./bin/vp replay {path}",
            "engine": "gosym",
            "level_claimed": {"category": "model_checking", "text": LEVEL_TEXT[i], "design_ref": "DESIGN.md §3 " + i + ", §8"},
            "level_note": NOTE,
            "technique": "bounded symbolic execution of the real Go SSA code with SMT-decided branches and assertions (z3), counterexamples replayed natively",
        })
    m = {
        "version": 1,
        "setup_cmd": "cd /verif/engine && GOFLAGS=-mod=mod GOPROXY=off GOSUMDB=off GOTOOLCHAIN=local go build -o /verif/bin/vp ./cmd/vp",
        "hooks": {
            "guard": "verif",
            "enable": "no source hooks: harnesses are injected with a go/packages overlay (package formula, files /repo/zz_vp_*.go exist only in the overlay); native replays use go test -overlay",
            "baseline_off_cmd": "cd /repo && go test -mod=readonly -vet=off -count=1 ./...",
            "source_commits": [],
            "add_only": True,
        },
        "engines": [{"name": "gosym", "path": "/verif/engine/gosym", "serves_properties": ids,
                     "kind_free_text": "path-forking symbolic executor for Go SSA (fork of x/tools v0.29.0 go/ssa/interp with symbolic scalars and strings), z3 over a pipe with push/pop, interval pre-solver domain, native replay of every counterexample and of sampled path models"}],
        "checks": checks,
        "not_applicable": [],
        "notes": "Every check rebuilds the SSA encoding from /repo's working tree. Fix commits made to /repo are listed in known_findings.json (status fixed); one unrepaired finding (C03, status known) is reported by its check as a KNOWN-FINDING line with exit 0. ./check <ID> thorough runs deeper bounds (see engine/cmd/vp/checks.go).",
    }
    json.dump(m, open("/verif/MANIFEST.json", "w"), indent=1)

main()
