#!/usr/bin/env python3
"""Prints the markdown table 'which check catches which seeded change' from seeded/*/result.json."""
import json, glob, os, re
rows = []
for d in sorted(glob.glob('/verif/seeded/*')):
    try:
        m = json.load(open(d + '/meta.json')); r = json.load(open(d + '/result.json'))
    except Exception:
        continue
    labels = []
    for c, v in r.get('checks', {}).items():
        for l in v.get('labels', []):
            mm = re.match(r'label=(\S+)', l)
            if mm and mm.group(1) not in labels:
                labels.append(mm.group(1))
    caught = 'yes' if r.get('caught') else ('superseded by a fix' if m.get('superseded') else 'NO')
    rows.append((os.path.basename(d), m.get('summary', '')[:140].replace('|', '/'), m.get('needs', '')[:110].replace('|', '/'), caught + (' (' + r.get('tier', 'quick') + ')' if r.get('caught') else ''), ', '.join(labels[:2])))
print('| seeded change | what it changes | what it needs | caught | first failing labels |')
print('|---|---|---|---|---|')
for r in rows:
    print('| %s | %s | %s | %s | %s |' % r)
