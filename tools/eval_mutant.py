#!/usr/bin/env python3
"""Evaluate one seeded change: confirm it (compiles, existing suite passes,
demonstration fails with / passes without) in a scratch worktree, then apply it
to /repo, run the given checks, and undo it straight afterwards.

usage: eval_mutant.py <dir with patch.diff, zz_demo_test.go, meta.json> [--tier quick] [--checks C01,C02]
Writes <dir>/result.json."""
import json, os, subprocess, sys, shutil, tempfile, time

def sh(cmd, cwd=None, timeout=3600):
    p = subprocess.run(cmd, shell=True, cwd=cwd, capture_output=True, text=True, timeout=timeout)
    return p.returncode, p.stdout + p.stderr

def main():
    d = os.path.abspath(sys.argv[1])
    tier = "quick"
    checks = None
    args = sys.argv[2:]
    for i, a in enumerate(args):
        if a == "--tier":
            tier = args[i + 1]
        if a == "--checks":
            checks = args[i + 1].split(",")
    meta = json.load(open(os.path.join(d, "meta.json")))
    prop = meta.get("property", "")
    if checks is None:
        checks = [prop]
    patch = os.path.join(d, "patch.diff")
    demo = os.path.join(d, "zz_demo_test.go")
    res = {"property": prop, "dir": d, "tier": tier}
    rc, out = sh("git -C /repo status --porcelain")
    if out.strip():
        print("ERROR: /repo is not clean:", out)
        sys.exit(2)
    # --- confirmation in a scratch worktree ---
    wt = tempfile.mkdtemp(prefix="vpmut_", dir="/tmp")
    os.rmdir(wt)
    sh("git -C /repo worktree add -q %s HEAD" % wt)
    env = "GOFLAGS= GOPROXY=off GOSUMDB=off GOTOOLCHAIN=local"
    try:
        shutil.copy(demo, os.path.join(wt, "zz_demo_test.go"))
        rc0, out0 = sh("%s go test -mod=readonly -vet=off -count=1 ." % env, cwd=wt)
        res["demo_passes_without_patch"] = rc0 == 0
        rc, out = sh("git apply %s" % patch, cwd=wt)
        res["patch_applies"] = rc == 0
        if rc != 0:
            res["error"] = out
        else:
            os.remove(os.path.join(wt, "zz_demo_test.go"))
            rc1, out1 = sh("%s go build ./... && %s go test -mod=readonly -vet=off -count=1 ./..." % (env, env), cwd=wt)
            res["existing_suite_passes_with_patch"] = rc1 == 0
            shutil.copy(demo, os.path.join(wt, "zz_demo_test.go"))
            rc2, out2 = sh("%s go test -mod=readonly -vet=off -count=1 ." % env, cwd=wt, timeout=600)
            res["demo_fails_with_patch"] = rc2 != 0
            res["demo_output_with_patch"] = out2[-1500:]
    finally:
        sh("git -C /repo worktree remove --force %s" % wt)
        sh("go clean -testcache")
    res["confirmed"] = bool(res.get("patch_applies") and res.get("existing_suite_passes_with_patch") and res.get("demo_fails_with_patch") and res.get("demo_passes_without_patch"))
    # --- run the checks against /repo with the patch applied ---
    res["checks"] = {}
    if res["confirmed"]:
        rc, out = sh("git -C /repo apply %s" % patch)
        try:
            for c in checks:
                t0 = time.time()
                rc, out = sh("cd /verif && ./check %s %s" % (c, tier), timeout=7200)
                viol = [l for l in out.splitlines() if l.startswith("VIOLATION")]
                labels = [l.strip() for l in out.splitlines() if l.strip().startswith("label=")]
                last = [l for l in out.splitlines() if l.startswith("== ")]
                res["checks"][c] = {"exit": rc, "violations": viol, "labels": labels[:6], "summary": last[-1] if last else out[-400:], "wall_s": round(time.time() - t0, 1)}
        finally:
            sh("git -C /repo checkout -- .")
            rc, out = sh("git -C /repo status --porcelain")
            if out.strip():
                print("WARNING: /repo not clean after undo:", out)
    res["caught"] = any(v["exit"] == 1 and v["violations"] for v in res["checks"].values())
    json.dump(res, open(os.path.join(d, "result.json"), "w"), indent=1)
    print(json.dumps({k: res[k] for k in ("property", "confirmed", "caught")}), {c: (v["exit"], v["labels"][:2]) for c, v in res["checks"].items()})

main()
